// C07 — native fuzz targets (thorough tier only; the driver runs `go test -fuzz`).
//
// Every target has two arms, both with the semantic oracle inside:
//   A. the input bytes are decoded STRUCTURALLY into a value sequence (8 bytes per number,
//      length-prefixed strings) and pushed through the same round-trip / interop oracle the rapid
//      properties use (checkBlock, checkInterop, checkS8b);
//   B. the raw input is handed to the decoders as if it were an encoded block: whatever a decoder
//      returns WITHOUT error must re-encode and decode to the same values. Errors on arbitrary
//      bytes are fine. Panics on arbitrary bytes are not part of property C07 (it speaks about
//      encoder output only) and are ignored in this arm; inputs announcing more than 1<<16 values
//      are skipped so that a corrupt count cannot exhaust memory.
package c07_codec

import (
	"encoding/binary"
	"math"
	"testing"

	"github.com/influxdata/influxdb/v2/pkg/encoding/simple8b"
	"github.com/influxdata/influxdb/v2/tsdb/engine/tsm1"
)

const fuzzMaxValues = 1 << 16

func words(data []byte) []uint64 {
	out := make([]uint64, 0, len(data)/8)
	for ; len(data) >= 8; data = data[8:] {
		out = append(out, binary.LittleEndian.Uint64(data))
	}
	return out
}

// splitPairs interprets data as (timestamp, value) pairs of 8 bytes each.
func splitPairs(data []byte) (ts []int64, vals []uint64) {
	w := words(data)
	for k := 0; k+1 < len(w); k += 2 {
		ts = append(ts, int64(w[k]))
		vals = append(vals, w[k+1])
	}
	return
}

func hostile8(vs ...uint64) []byte {
	var b []byte
	for _, v := range vs {
		b = binary.LittleEndian.AppendUint64(b, v)
	}
	return b
}

func addCommonSeeds(f *testing.F) {
	f.Add([]byte{})
	f.Add(hostile8(0, 0))
	f.Add(hostile8(1, 1, 2, 1, 3, 1, 4, 1))
	f.Add(hostile8(uint64(1<<63), uint64(1<<63), ^uint64(0), ^uint64(0), 0, 0))
	f.Add(hostile8(0, 0x7FF8000000000001, 10, 0x7FF0000000000000, 20, 0xFFF0000000000000))
	f.Add(hostile8(1e9, 1<<60-1, 2e9, 1<<60, 3e9, 1<<60+1, 1e12, 1))
	ones := make([]uint64, 0, 500)
	for i := 0; i < 250; i++ {
		ones = append(ones, uint64(i)*1e9, uint64(1000-i))
	}
	f.Add(hostile8(ones...))
	ff := make([]byte, 64)
	for i := range ff {
		ff[i] = 0xFF
	}
	f.Add(ff)
}

// seedBlocks adds valid encoded blocks so that arm B starts from decodable inputs.
func seedBlocks(f *testing.F, typ string) {
	ts := []int64{0, 10, 20, 30, 40, 1 << 61}
	c := col{typ: typ}
	switch typ {
	case "float":
		c.f = []float64{1, 1, 1.5, -0.0, math.MaxFloat64, math.SmallestNonzeroFloat64}
	case "integer":
		c.i = []int64{1, 2, 3, 4, math.MinInt64, math.MaxInt64}
	case "string":
		c.s = []string{"", "a", "a", "\xff\x00", "héllo", "zzzzzzzzzzzzzzzzzzzz"}
	}
	for _, enc := range blockEncoders {
		if b, err := enc.f(c, ts, nil); err == nil {
			f.Add(b)
		}
	}
}

// blockArmB: decode raw bytes as a block of the given type; on success re-encode and compare.
func blockArmB(t *testing.T, typ string, data []byte) {
	if len(data) < 2 {
		return
	}
	c := col{typ: typ}
	blk := append([]byte(nil), data...)
	blk[0] = c.blockType() // the first input byte is the block type
	var cnt int
	var cerr error
	if safely(func() { cnt, cerr = tsm1.BlockCount(blk) }) != nil || cerr != nil || cnt <= 0 || cnt > fuzzMaxValues {
		return
	}
	var ts []int64
	var got col
	var derr error
	if safely(func() { ts, got, derr = decTyped(typ, blk, -1) }) != nil || derr != nil || len(ts) == 0 {
		return
	}
	if got.len() != len(ts) {
		return
	}
	if _, _, v := checkBlock(got, ts, blockEncoders[0], nil, -1); v != nil {
		t.Fatalf("re-encoding the values a decoder accepted: %s: %s", v.key, v.detail)
	}
}

func fuzzBlock(f *testing.F, typ string, mk func(vals []uint64) col) {
	addCommonSeeds(f)
	seedBlocks(f, typ)
	f.Fuzz(func(t *testing.T, data []byte) {
		if len(data) > 1<<16 {
			return
		}
		// arm A
		ts, raw := splitPairs(data)
		if len(ts) > 0 {
			c := mk(raw)
			for _, enc := range blockEncoders {
				if _, _, v := checkBlock(c, ts, enc, nil, -1); v != nil {
					t.Fatalf("%s: %s", v.key, v.detail)
				}
			}
			codec := typ
			if _, _, v := checkInterop(codec, c, col{}, false, nil, -1); v != nil {
				t.Fatalf("%s: %s", v.key, v.detail)
			}
		}
		// arm B
		blockArmB(t, typ, data)
	})
}

func FuzzFloatBlock(f *testing.F) {
	fuzzBlock(f, "float", func(vals []uint64) col {
		c := col{typ: "float", f: make([]float64, len(vals))}
		for k, v := range vals {
			c.f[k] = math.Float64frombits(v)
		}
		return c
	})
}

func FuzzIntegerBlock(f *testing.F) {
	fuzzBlock(f, "integer", func(vals []uint64) col {
		c := col{typ: "integer", i: make([]int64, len(vals))}
		for k, v := range vals {
			c.i[k] = int64(v)
		}
		return c
	})
}

// FuzzStringBlock: arm A splits the input into strings: one length byte (0..255, 255 = "rest of
// a 4 KiB repeat of the next byte"), then that many bytes.
func FuzzStringBlock(f *testing.F) {
	f.Add([]byte{})
	f.Add([]byte{0, 0, 0})
	f.Add([]byte{1, 'a', 3, 'a', '=', ',', 0, 2, 0xff, 0xfe, 255, 'z'})
	f.Add([]byte{255, 0, 255, 1, 5, 'h', 'e', 'l', 'l', 'o'})
	seedBlocks(f, "string")
	f.Fuzz(func(t *testing.T, data []byte) {
		if len(data) > 1<<15 {
			return
		}
		var ss []string
		total := 0
		for d := data; len(d) > 0 && len(ss) < 3000 && total < 1<<20; {
			l := int(d[0])
			d = d[1:]
			if l == 255 && len(d) > 0 {
				b := make([]byte, 4096)
				for k := range b {
					b[k] = d[0] + byte(k>>8)
				}
				ss = append(ss, string(b))
				total += len(b)
				d = d[1:]
				continue
			}
			if l > len(d) {
				l = len(d)
			}
			ss = append(ss, string(d[:l]))
			total += l
			d = d[l:]
		}
		if len(ss) > 0 {
			c := col{typ: "string", s: ss}
			ts := make([]int64, len(ss))
			for k := range ts {
				ts[k] = int64(k) * int64(len(data)+1)
			}
			for _, enc := range blockEncoders {
				if _, _, v := checkBlock(c, ts, enc, nil, -1); v != nil {
					t.Fatalf("%s: %s", v.key, v.detail)
				}
			}
			if _, _, v := checkInterop("string", c, col{}, false, nil, -1); v != nil {
				t.Fatalf("%s: %s", v.key, v.detail)
			}
		}
		// arm B: guard the snappy length header (the decoder allocates what it announces)
		if len(data) >= 4 {
			blk := append([]byte(nil), data...)
			blk[0] = tsm1.BlockString
			if _, _, ok := blockSections(blk); !ok {
				return
			}
			// locate the value section and read snappy's uvarint length
			tl, k := binary.Uvarint(blk[1:])
			if k <= 0 || tl > uint64(len(blk)) || 1+k+int(tl)+1 >= len(blk) {
				return
			}
			vb := blk[1+k+int(tl):]
			dl, k2 := binary.Uvarint(vb[1:])
			if k2 <= 0 || dl > 1<<20 {
				return
			}
			blockArmB(t, "string", data)
		}
	})
}

// FuzzTimeBlock: timestamps only, scalar and batch codecs.
func FuzzTimeBlock(f *testing.F) {
	addCommonSeeds(f)
	for _, ts := range [][]int64{{1, 2, 3, 4}, {0, 1e9, 2e9, 3e9 + 1}, {5, 1 << 61, 7}, {math.MinInt64, math.MaxInt64}} {
		if b, err := tsm1.TimeArrayEncodeAll(append([]int64(nil), ts...), nil); err == nil {
			f.Add(b)
		}
	}
	f.Fuzz(func(t *testing.T, data []byte) {
		if len(data) > 1<<16 {
			return
		}
		w := words(data)
		c := col{typ: "integer", i: make([]int64, len(w))}
		for k, v := range w {
			c.i[k] = int64(v)
		}
		if _, _, v := checkInterop("time", c, col{}, false, nil, -1); v != nil {
			t.Fatalf("%s: %s", v.key, v.detail)
		}
		// arm B
		var cnt int
		if len(data) == 0 || safely(func() { cnt = tsm1.CountTimestamps(data) }) != nil || cnt <= 0 || cnt > fuzzMaxValues {
			return
		}
		var got []int64
		var derr error
		if safely(func() { got, derr = tsm1.TimeArrayDecodeAll(data, nil) }) != nil || derr != nil || len(got) == 0 {
			return
		}
		if _, _, v := checkInterop("time", col{typ: "integer", i: got}, col{}, false, nil, -1); v != nil {
			t.Fatalf("re-encoding the timestamps a decoder accepted: %s: %s", v.key, v.detail)
		}
	})
}

func FuzzSimple8b(f *testing.F) {
	addCommonSeeds(f)
	for _, w := range []int{1, 2, 3, 4, 5, 6, 7, 8, 10, 12, 15, 20, 30, 60} {
		f.Add(hostile8(maskBits(w), maskBits(w)+1, maskBits(w)-1, 1, 1, 1))
	}
	f.Fuzz(func(t *testing.T, data []byte) {
		if len(data) > 1<<15 {
			return
		}
		// arm A: the words are the values; a second pass masks them to a width taken from the
		// first byte so that packable inputs are common
		vals := words(data)
		if v := checkS8b(vals, false); v != nil {
			t.Fatalf("%s: %s", v.key, v.detail)
		}
		if len(data) > 0 {
			w := int(data[0])%60 + 1
			masked := make([]uint64, len(vals))
			for k, x := range vals {
				masked[k] = x & maskBits(w)
				if x>>63 == 1 && w <= 8 {
					masked[k] = 1 // runs of ones
				}
			}
			if v := checkS8b(masked, true); v != nil {
				t.Fatalf("%s: %s", v.key, v.detail)
			}
		}
		// arm B: the input as packed big-endian words
		if len(data)%8 != 0 || len(data) == 0 {
			return
		}
		cnt, err := simple8b.CountBytes(data)
		if err != nil || cnt <= 0 || cnt > fuzzMaxValues {
			return
		}
		dst := make([]uint64, cnt)
		var n int
		if safely(func() { n, err = simple8b.DecodeBytesBigEndian(dst, data) }) != nil || err != nil || n != cnt {
			return
		}
		if v := checkS8b(dst, false); v != nil {
			t.Fatalf("re-encoding the values a decoder accepted: %s: %s", v.key, v.detail)
		}
	})
}
