package c07_codec

import (
	"testing"

	"verifharness/internal/ev"
)

func TestMain(m *testing.M) { ev.Main(m) }
