module verifharness

go 1.26.3

require (
	github.com/BurntSushi/toml v1.4.0
	github.com/anishathalye/porcupine v1.3.0
	github.com/benbjohnson/clock v1.1.0
	github.com/cespare/xxhash/v2 v2.3.0
	github.com/go-crypt/crypt v0.3.2
	github.com/influxdata/flux v0.200.0
	github.com/influxdata/influxdb/v2 v2.3.0
	github.com/influxdata/influxql v1.4.1
	github.com/prometheus/client_golang v1.19.1
	github.com/prometheus/client_model v0.6.2
	go.uber.org/zap v1.27.0
	google.golang.org/protobuf v1.36.10
	pgregory.net/rapid v1.3.0
)

require (
	github.com/Masterminds/squirrel v1.5.0 // indirect
	github.com/NYTimes/gziphandler v1.0.1 // indirect
	github.com/RoaringBitmap/roaring v0.4.16 // indirect
	github.com/andreyvit/diff v0.0.0-20170406064948-c7f18ee00883 // indirect
	github.com/apache/arrow-go/v18 v18.4.0 // indirect
	github.com/benbjohnson/immutable v0.4.3 // indirect
	github.com/beorn7/perks v1.0.1 // indirect
	github.com/buger/jsonparser v1.1.1 // indirect
	github.com/davecgh/go-spew v1.1.2-0.20180830191138-d8f796af33cc // indirect
	github.com/dgryski/go-bitstream v0.0.0-20180413035011-3522498ce2c8 // indirect
	github.com/dustin/go-humanize v1.0.1 // indirect
	github.com/elazarl/go-bindata-assetfs v1.0.1 // indirect
	github.com/fsnotify/fsnotify v1.5.4 // indirect
	github.com/glycerine/go-unsnap-stream v0.0.0-20181221182339-f9677308dec2 // indirect
	github.com/go-chi/chi v4.1.0+incompatible // indirect
	github.com/go-crypt/x v0.3.2 // indirect
	github.com/go-stack/stack v1.8.0 // indirect
	github.com/goccy/go-json v0.10.5 // indirect
	github.com/gofrs/uuid v3.3.0+incompatible // indirect
	github.com/golang-jwt/jwt/v4 v4.5.2 // indirect
	github.com/golang/gddo v0.0.0-20181116215533-9bd4a3295021 // indirect
	github.com/golang/mock v1.6.0 // indirect
	github.com/golang/snappy v1.0.0 // indirect
	github.com/google/btree v1.1.3 // indirect
	github.com/google/flatbuffers v25.9.23+incompatible // indirect
	github.com/google/go-cmp v0.7.0 // indirect
	github.com/hashicorp/errwrap v1.1.0 // indirect
	github.com/hashicorp/go-multierror v1.1.1 // indirect
	github.com/hashicorp/hcl v1.0.0 // indirect
	github.com/influxdata/cron v0.0.0-20201006132531-4bb0a200dcbe // indirect
	github.com/influxdata/httprouter v1.3.1-0.20191122104820-ee83e2772f69 // indirect
	github.com/influxdata/influx-cli/v2 v2.7.1-0.20250130214939-76d1c4d9b777 // indirect
	github.com/jmoiron/sqlx v1.3.4 // indirect
	github.com/jsternberg/zap-logfmt v1.2.0 // indirect
	github.com/jwilder/encoding v0.0.0-20170811194829-b4e1701a28ef // indirect
	github.com/klauspost/cpuid/v2 v2.2.11 // indirect
	github.com/lann/builder v0.0.0-20180802200727-47ae307949d0 // indirect
	github.com/lann/ps v0.0.0-20150810152359-62de8c46ede0 // indirect
	github.com/magiconair/properties v1.8.7 // indirect
	github.com/mattn/go-isatty v0.0.20 // indirect
	github.com/mattn/go-sqlite3 v1.14.18 // indirect
	github.com/mileusna/useragent v0.0.0-20190129205925-3e331f0949a5 // indirect
	github.com/mitchellh/mapstructure v1.5.0 // indirect
	github.com/opentracing/opentracing-go v1.2.0 // indirect
	github.com/pelletier/go-toml v1.9.5 // indirect
	github.com/philhofer/fwd v1.0.0 // indirect
	github.com/pkg/errors v0.9.1 // indirect
	github.com/pmezard/go-difflib v1.0.1-0.20181226105442-5d4384ee4fb2 // indirect
	github.com/prometheus/common v0.53.0 // indirect
	github.com/prometheus/procfs v0.15.0 // indirect
	github.com/sergi/go-diff v1.1.0 // indirect
	github.com/spf13/afero v1.10.0 // indirect
	github.com/spf13/cast v1.3.0 // indirect
	github.com/spf13/cobra v1.7.0 // indirect
	github.com/spf13/jwalterweatherman v1.0.0 // indirect
	github.com/spf13/pflag v1.0.6 // indirect
	github.com/spf13/viper v1.6.1 // indirect
	github.com/stretchr/testify v1.11.1 // indirect
	github.com/subosito/gotenv v1.2.0 // indirect
	github.com/tinylib/msgp v1.1.0 // indirect
	github.com/uber/jaeger-client-go v2.28.0+incompatible // indirect
	github.com/uber/jaeger-lib v2.4.1+incompatible // indirect
	github.com/xlab/treeprint v1.0.0 // indirect
	github.com/zeebo/xxh3 v1.0.2 // indirect
	go.etcd.io/bbolt v1.3.6 // indirect
	go.uber.org/atomic v1.11.0 // indirect
	go.uber.org/multierr v1.11.0 // indirect
	golang.org/x/crypto v0.48.0 // indirect
	golang.org/x/exp v0.0.0-20250408133849-7e4ce0ab07d0 // indirect
	golang.org/x/sync v0.19.0 // indirect
	golang.org/x/sys v0.41.0 // indirect
	golang.org/x/text v0.34.0 // indirect
	golang.org/x/time v0.11.0 // indirect
	golang.org/x/xerrors v0.0.0-20240903120638-7835f813f4da // indirect
	gopkg.in/ini.v1 v1.51.0 // indirect
	gopkg.in/yaml.v2 v2.4.0 // indirect
	gopkg.in/yaml.v3 v3.0.1 // indirect
)

replace github.com/influxdata/influxdb/v2 => /repo
