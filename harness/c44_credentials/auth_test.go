// C44 part 3: request authentication through http.AuthenticationHandler over the real
// authorization service (token store with hashing off/on and switched on reopen), the real
// session service (in-memory session store, wall-clock expiry) and the real tenant service, all
// on one in-memory KV store.
//
// Generator: a history of createToken(user, active|inactive) / setTokenStatus / deleteToken /
// setUserStatus / deleteUser / createSession / expireSession / reopen of the authorization store
// with token hashing toggled (variant sha256|sha512) / wait-for-expiry (a minority of cases; the
// session length is 300..400 ms there) and probes: `Authorization: Token|Bearer <t>` for live,
// deactivated, deleted and fabricated tokens (one character changed, the stored PHC hash of a live
// token, empty), non-canonical headers (scheme case, missing/double/trailing space, Basic, bare
// token, two headers, arbitrary strings), session cookies (live, expired, revoked, fabricated),
// and cookie + header together. Session length: 1 h (renewal is a no-op), 1..4 min (below
// RenewSessionTime: every renewal extends the session) or 300..400 ms (expires inside the case).
// In-flight requests (only when the handler renews sessions): the middleware's session path is
// FindSession(cookie) followed by RenewSession(found object, now+5m); another request or the
// expiry can fall between the two calls. The harness replays that interleaving sequentially:
// FindSession, then a logout (ExpireSession) / a user status change / nothing / the wait for the
// expiry, then the RenewSession call with the held object, then a canonical probe of the cookie.
// "Authenticated" = the handler behind AuthenticationHandler is reached, finds an authorizer in
// the request context and that authorizer's PermissionSet() succeeds (this is what every
// downstream authorizer call does first; an inactive token is rejected there).
// Oracle:
//   - only-if (every probe): an authenticated request carries — as the exact remainder after a
//     "Token "/"Bearer " scheme, or as the session cookie value — a credential that the model says
//     exists, is active / not revoked / unexpired and belongs to an existing active user, and the
//     authorizer in the context is that credential (same authorization id / session key, same user);
//   - if (canonical probes: "Token <t>", "Bearer <t>", cookie only): such a credential authenticates;
//   - session expiry uses the wall clock: the model keeps an interval [lo,hi] for the expiry
//     instant (creation / renewal happen somewhere inside a measured call); a probe whose measured
//     interval is not at least 150 ms before lo or after hi is not asserted (and the harness does
//     not send session probes it knows to be that close);
//   - an in-flight renewal changes the model exactly like a renewal by a probe when the session
//     is live, and not at all when the session was revoked or has expired in between: the probes
//     that follow demand that such a session stays dead. A held expired session is only renewed
//     once the in-memory store's expiry timers have visibly run (a late timer is not a defect).
package c44_credentials

import (
	"context"
	"encoding/base64"
	"fmt"
	"net/http"
	"net/http/httptest"
	"strings"
	"testing"
	"time"

	"github.com/influxdata/influxdb/v2"
	"github.com/influxdata/influxdb/v2/authorization"
	icontext "github.com/influxdata/influxdb/v2/context"
	ihttp "github.com/influxdata/influxdb/v2/http"
	"github.com/influxdata/influxdb/v2/inmem"
	"github.com/influxdata/influxdb/v2/kit/platform"
	kithttp "github.com/influxdata/influxdb/v2/kit/transport/http"
	"github.com/influxdata/influxdb/v2/kv/migration/all"
	"github.com/influxdata/influxdb/v2/pkg/crypt/algorithm/influxdb2"
	"github.com/influxdata/influxdb/v2/session"
	"github.com/influxdata/influxdb/v2/snowflake"
	"github.com/influxdata/influxdb/v2/tenant"
	"go.uber.org/zap"
	"pgregory.net/rapid"
)

const (
	expiryMargin = 150 * time.Millisecond
	avoidMargin  = 220 * time.Millisecond
)

type mUser struct {
	id     platform.ID
	name   string
	exists bool
	active bool
}

type mTok struct {
	id       platform.ID
	tok      string
	user     int
	exists   bool
	active   bool
	everAuth bool
}

type mSess struct {
	key      string
	user     int
	revoked  bool
	lo, hi   time.Time // the expiry instant lies in [lo,hi]
	everAuth bool
}

type authOp struct {
	Op     string `json:"op"`
	Arg    string `json:"arg,omitempty"`
	Header string `json:"header,omitempty"`
	Cookie string `json:"cookie,omitempty"`
	Result string `json:"result,omitempty"`
}

type seenAuth struct {
	reached bool
	kind    string
	id      platform.ID
	userID  platform.ID
	key     string
	permErr error
}

type authFix struct {
	kvs     *inmem.KVStore
	ten     *tenant.Service
	authSvc influxdb.AuthorizationService
	mem     *inmem.SessionStore
	sessSt  *session.Storage
	sessSvc *session.Service
	idGen   platform.IDGenerator
	h       *ihttp.AuthenticationHandler
	length  time.Duration
	seen    seenAuth
}

func (f *authFix) openAuth(hashed bool, variant string) error {
	st, err := authorization.NewStore(context.Background(), f.kvs, hashed, authorization.WithAuthorizationHashVariantName(variant))
	if err != nil {
		return err
	}
	f.authSvc = authorization.NewService(st, f.ten)
	// One session service per process in production: re-creating it here (it needs the re-opened
	// authorization service) must not also re-create its ID generator - two generators started
	// in the same millisecond with the same random machine id hand out the same session id.
	if f.idGen == nil {
		f.idGen = snowflake.NewIDGenerator()
	}
	f.sessSvc = session.NewService(f.sessSt, f.ten, f.ten, f.authSvc, session.WithSessionLength(f.length), session.WithIDGenerator(f.idGen))
	if f.h != nil {
		f.h.AuthorizationService = f.authSvc
		f.h.SessionService = f.sessSvc
	}
	return nil
}

func (f *authFix) inner(w http.ResponseWriter, r *http.Request) {
	f.seen = seenAuth{reached: true}
	a, err := icontext.GetAuthorizer(r.Context())
	if err != nil {
		f.seen.permErr = err
		w.WriteHeader(http.StatusInternalServerError)
		return
	}
	f.seen.kind, f.seen.id, f.seen.userID = a.Kind(), a.Identifier(), a.GetUserID()
	if s, ok := a.(*influxdb.Session); ok {
		f.seen.key = s.Key
	}
	if _, err := a.PermissionSet(); err != nil {
		f.seen.permErr = err
		w.WriteHeader(http.StatusUnauthorized)
		return
	}
	w.WriteHeader(http.StatusOK)
}

const tokenAlphabet = "ABCDEFGHIJKLMNOPQRSTUVWXYZabcdefghijklmnopqrstuvwxyz0123456789-_"

func refPHC(variant, tok string) string {
	v := influxdb2.NewVariant(variant)
	return "$" + variant + "$" + base64.URLEncoding.EncodeToString(refHash(v, tok))
}

func TestPropRequestAuth(t *testing.T) {
	const name = "TestPropRequestAuth"
	rec.Assume("request authentication: the inner handler stands for every downstream use of the authorizer (PermissionSet() first); JWT bearer tokens are not generated (empty key store); session expiry probes closer than 150 ms to the modelled expiry interval are not asserted; RenewSessionTime is the production 5 minutes")
	rec.Check(t, 900, 5000, func(t *rapid.T) {
		ctx := context.Background()
		withWait := rapid.IntRange(0, 9999).Draw(t, "with_wait")%9 == 2 // (rapid ranges are biased towards small values: a threshold would not give the intended share)
		renewDisabled := rapid.IntRange(0, 9).Draw(t, "renew_disabled") < 6
		length := time.Hour
		if withWait {
			length = time.Duration(rapid.SampledFrom([]int{300, 400}).Draw(t, "session_ms")) * time.Millisecond
		} else if rapid.IntRange(0, 9999).Draw(t, "short_length")%10 < 3 {
			// a configured session length below RenewSessionTime (5 min): every renewal extends the
			// session (with the default hour a renewal is a no-op until the last five minutes)
			length = time.Duration(rapid.SampledFrom([]int{1, 2, 4}).Draw(t, "session_min")) * time.Minute
		}
		hashed := rapid.Bool().Draw(t, "hashed")
		variant := rapid.SampledFrom([]string{influxdb2.VariantIdentifierSHA256, influxdb2.VariantIdentifierSHA512}).Draw(t, "variant")

		f := &authFix{kvs: inmem.NewKVStore(), length: length}
		if err := all.Up(ctx, zap.NewNop(), f.kvs); err != nil {
			t.Fatalf("migrations: %v", err)
		}
		f.ten = tenant.NewService(tenant.NewStore(f.kvs))
		f.mem = inmem.NewSessionStore()
		f.sessSt = session.NewStorage(f.mem)
		if err := f.openAuth(hashed, variant); err != nil {
			t.Fatalf("auth store: %v", err)
		}
		f.h = ihttp.NewAuthenticationHandler(zap.NewNop(), kithttp.NewErrorHandler(zap.NewNop()))
		f.h.AuthorizationService, f.h.SessionService, f.h.UserService = f.authSvc, f.sessSvc, f.ten
		f.h.SessionRenewDisabled = renewDisabled
		f.h.Handler = http.HandlerFunc(f.inner)

		org := &influxdb.Organization{Name: "org"}
		if err := f.ten.CreateOrganization(ctx, org); err != nil {
			t.Fatalf("org: %v", err)
		}
		perm, err := influxdb.NewPermission(influxdb.ReadAction, influxdb.BucketsResourceType, org.ID)
		if err != nil {
			t.Fatal(err)
		}
		var users []*mUser
		for i := 0; i < 3; i++ {
			u := &influxdb.User{Name: fmt.Sprintf("user%d", i), Status: influxdb.Active}
			if err := f.ten.CreateUser(ctx, u); err != nil {
				t.Fatalf("user: %v", err)
			}
			users = append(users, &mUser{id: u.ID, name: u.Name, exists: true, active: true})
		}
		var toks []*mTok
		var sessions []*mSess
		var ops []authOp
		c := map[string]any{"hashed": hashed, "variant": variant, "renew_disabled": renewDisabled, "session_length": length.String()}
		fail := func(key, detail string) {
			c["ops"] = ops
			rec.Fail(t, name, key, detail, c)
		}
		lostThenProbed, waited, probes := false, false, 0
		inflightLost := false

		// modelRenew: RenewSession(now+RenewSessionTime) was called for s somewhere inside [t0,t1]
		// while the model says alive / expired / neither (inside the margin) about s at that time.
		modelRenew := func(s *mSess, t0, t1 time.Time, alive, expired bool) {
			nlo, nhi := t0.Add(influxdb.RenewSessionTime), t1.Add(influxdb.RenewSessionTime)
			switch {
			case expired:
			case alive:
				if nlo.After(s.hi) {
					s.lo, s.hi = nlo, nhi
				}
			default:
				if nhi.After(s.hi) {
					s.hi = nhi
				}
			}
		}

		userOK := func(i int) bool { return users[i].exists && users[i].active }

		// probe sends one request and applies the oracle. wantTok / wantSess: the credential the
		// canonical form presents (nil = none / fabricated); canonical = the "if" direction applies.
		probe := func(op authOp, headers []string, cookie string, canonical bool, wantTok *mTok, wantSess *mSess) {
			req := httptest.NewRequest(http.MethodGet, "/api/v2/buckets", nil)
			for _, h := range headers {
				req.Header.Add("Authorization", h)
			}
			if cookie != "" {
				session.SetCookieSession(cookie, req)
			}
			if len(headers) > 0 {
				op.Header = strings.Join(headers, " || ")
			}
			op.Cookie = cookie
			f.seen = seenAuth{}
			w := httptest.NewRecorder()
			t0 := time.Now()
			f.h.ServeHTTP(w, req)
			t1 := time.Now()
			probes++
			authed := w.Code == http.StatusOK && f.seen.reached && f.seen.permErr == nil
			op.Result = fmt.Sprintf("%d authed=%v kind=%s", w.Code, authed, f.seen.kind)
			ops = append(ops, op)
			if w.Code/100 == 2 && !authed {
				fail("success-without-authorizer", fmt.Sprintf("status %d but the inner handler saw reached=%v permErr=%v", w.Code, f.seen.reached, f.seen.permErr))
			}

			// session bookkeeping: which sessions may have been renewed by this request
			touchSession := func(s *mSess) (alive, expired bool) {
				alive = t1.Before(s.lo.Add(-expiryMargin))
				expired = t0.After(s.hi.Add(expiryMargin))
				return
			}

			if authed {
				switch f.seen.kind {
				case influxdb.AuthorizationKind:
					var x *mTok
					for _, k := range toks {
						if k.id == f.seen.id {
							x = k
						}
					}
					if x == nil {
						fail("authenticated-with-unknown-token", fmt.Sprintf("request authenticated as authorization %s which the history never created", f.seen.id))
					}
					hdr := ""
					if len(headers) > 0 {
						hdr = headers[0]
					}
					presented := strings.HasSuffix(hdr, x.tok) &&
						(strings.EqualFold(hdr[:len(hdr)-len(x.tok)], "Token ") || strings.EqualFold(hdr[:len(hdr)-len(x.tok)], "Bearer "))
					switch {
					case !presented:
						fail("authenticated-without-presenting-token", fmt.Sprintf("header %q authenticated as token #%d (%q), which the header does not carry", hdr, indexTok(toks, x), x.tok))
					case !x.exists:
						fail("deleted-token-authenticates", fmt.Sprintf("token %q was deleted and still authenticates", x.tok))
					case !x.active:
						fail("inactive-token-authenticates", fmt.Sprintf("token %q is inactive and still authenticates", x.tok))
					case !userOK(x.user):
						fail("inactive-user-authenticates", fmt.Sprintf("token %q authenticates although its user exists=%v active=%v", x.tok, users[x.user].exists, users[x.user].active))
					case f.seen.userID != users[x.user].id:
						fail("authorizer-of-other-user", fmt.Sprintf("token %q of user%d authenticated as user id %s", x.tok, x.user, f.seen.userID))
					}
					x.everAuth = true
				case influxdb.SessionAuthorizationKind:
					var s *mSess
					for _, k := range sessions {
						if k.key == f.seen.key {
							s = k
						}
					}
					if s == nil || cookie != s.key {
						fail("authenticated-with-unknown-session", fmt.Sprintf("request with cookie %q authenticated as session key %q", cookie, f.seen.key))
					}
					_, expired := touchSession(s)
					switch {
					case s.revoked:
						fail("revoked-session-authenticates", fmt.Sprintf("session %q was expired explicitly and still authenticates", s.key))
					case expired:
						fail("expired-session-authenticates", fmt.Sprintf("session %q expired at the latest %v before the request started and still authenticates", s.key, t0.Sub(s.hi)))
					case !userOK(s.user):
						fail("inactive-user-authenticates", fmt.Sprintf("session of user%d authenticates although the user exists=%v active=%v", s.user, users[s.user].exists, users[s.user].active))
					case f.seen.userID != users[s.user].id:
						fail("authorizer-of-other-user", fmt.Sprintf("session of user%d authenticated as user id %s", s.user, f.seen.userID))
					}
					s.everAuth = true
				default:
					fail("authenticated-with-unknown-authorizer", fmt.Sprintf("authorizer kind %q", f.seen.kind))
				}
			}

			if canonical {
				switch {
				case wantTok != nil:
					want := wantTok.exists && wantTok.active && userOK(wantTok.user)
					if want && !authed {
						fail("valid-token-rejected", fmt.Sprintf("header %q carries an existing active token of an active user; status %d (inner reached=%v, PermissionSet error %v)", op.Header, w.Code, f.seen.reached, f.seen.permErr))
					}
					if !want && wantTok.everAuth {
						lostThenProbed = true
					}
					rec.Class(fmt.Sprintf("auth:probe:token:%s", credClass(wantTok.exists, wantTok.active, userOK(wantTok.user))))
				case wantSess != nil:
					alive, expired := touchSession(wantSess)
					switch {
					case wantSess.revoked || expired || !userOK(wantSess.user):
						if wantSess.everAuth {
							lostThenProbed = true
						}
						rec.Class("auth:probe:session:" + sessClass(wantSess.revoked, expired, userOK(wantSess.user)))
					case alive:
						if !authed {
							fail("valid-session-rejected", fmt.Sprintf("cookie of a session that expires at the earliest in %v, not revoked, active user: status %d (PermissionSet error %v)", wantSess.lo.Sub(t1), w.Code, f.seen.permErr))
						}
						rec.Class("auth:probe:session:live")
					default:
						rec.Class("auth:probe:session:inside-margin-not-asserted")
					}
				}
			}
			// renewal model: the session named by the cookie is renewed whenever it is found and
			// the token scheme did not take precedence
			if cookie != "" && !renewDisabled {
				tokenScheme := false
				if len(headers) > 0 {
					h := headers[0]
					tokenScheme = (len(h) >= 6 && strings.EqualFold(h[:6], "Token ")) || (len(h) > 7 && strings.EqualFold(h[:7], "Bearer "))
				}
				for _, s := range sessions {
					if s.key != cookie || s.revoked || tokenScheme {
						continue
					}
					alive, expired := touchSession(s)
					modelRenew(s, t0, t1, alive, expired)
				}
			}
		}

		newToken := func(i int) string {
			return fmt.Sprintf("t%02d", i) + rapid.StringOfN(rapid.RuneFrom([]rune(tokenAlphabet)), 6, 30, -1).Draw(t, fmt.Sprintf("tok%d", i)) + "=="
		}

		// A request "in flight": the middleware's session path is FindSession(cookie), then
		// RenewSession(that object, now+RenewSessionTime). Other requests (a logout, a user update)
		// and the expiry of the session can fall between the two calls. The harness replays exactly
		// that interleaving sequentially: it looks the session up (inflight-lookup), lets something
		// else happen, and only then makes the in-flight request's RenewSession call with the object
		// it holds (inflightRenew), followed by a canonical probe of the cookie. Only generated when
		// the handler renews sessions at all (SessionRenewDisabled=false).
		inflightRenew := func(s *mSess, h *influxdb.Session, between string) {
			r0 := time.Now()
			newExp := time.Now().Add(influxdb.RenewSessionTime)
			err := f.sessSvc.RenewSession(ctx, h, newExp)
			r1 := time.Now()
			alive, expired := r1.Before(s.lo.Add(-expiryMargin)), r0.After(s.hi.Add(expiryMargin))
			ext := "not-extending"
			if newExp.After(h.ExpiresAt) {
				ext = "extending"
			}
			state := "live"
			switch {
			case s.revoked:
				state = "revoked"
			case expired:
				state = "expired"
			case !alive:
				state = "inside-margin"
			}
			if !s.revoked {
				modelRenew(s, r0, r1, alive, expired)
			}
			res := "renewal accepted"
			if err != nil {
				res = "renewal refused: " + err.Error()
			}
			ops = append(ops, authOp{Op: "inflight-renew", Arg: fmt.Sprintf("session of user%d; between lookup and renewal: %s", s.user, between), Result: res})
			rec.Class(fmt.Sprintf("auth:inflight:%s:session-%s:%s", between, state, ext))
			if s.revoked || expired {
				inflightLost = true
			}
			now := time.Now()
			if !s.revoked && now.After(s.lo.Add(-avoidMargin)) && now.Before(s.hi.Add(avoidMargin)) {
				rec.Class("auth:probe:session:not-sent-near-expiry")
				return
			}
			probe(authOp{Op: "probe-session-after-inflight-renew"}, nil, s.key, true, nil, s)
		}
		// storeForgot: the in-memory store's expiry timers for this session have run (they are
		// started for ExpiresAt; the harness only renews a held expired session once they have, so
		// that a late timer on a loaded machine is not mistaken for a resurrection).
		storeForgot := func(h *influxdb.Session) bool {
			deadline := time.Now().Add(2 * time.Second)
			for {
				_, err := f.sessSvc.FindSession(ctx, h.Key)
				byID, _ := f.mem.Get("sessionsv2/" + h.ID.String())
				byKey, _ := f.mem.Get("sessionsindexv2/" + h.Key)
				if err != nil && byID == "" && byKey == "" {
					time.Sleep(20 * time.Millisecond)
					return true
				}
				if time.Now().After(deadline) {
					return false
				}
				time.Sleep(5 * time.Millisecond)
			}
		}

		nOps := rapid.IntRange(8, 28).Draw(t, "nops")
		waitAt := -1
		if withWait {
			waitAt = rapid.IntRange(nOps/3, nOps-2).Draw(t, "wait_at")
		}
		for i := 0; i < nOps; i++ {
			lbl := fmt.Sprintf("op%d", i)
			if i == waitAt {
				// wait until every session created so far is past its expiry interval
				var until time.Time
				for _, s := range sessions {
					if !s.revoked && s.hi.After(until) && time.Until(s.hi) < 2*time.Second {
						until = s.hi
					}
				}
				if !until.IsZero() {
					// requests in flight across the expiry: session looked up before, renewed after
					type heldSess struct {
						s *mSess
						h *influxdb.Session
					}
					var held []heldSess
					if !renewDisabled && rapid.IntRange(0, 3).Draw(t, lbl+".inflight") != 0 {
						for _, s := range sessions {
							if s.revoked || s.hi.After(until) {
								continue
							}
							if h, err := f.sessSvc.FindSession(ctx, s.key); err == nil {
								held = append(held, heldSess{s, h})
								ops = append(ops, authOp{Op: "inflight-lookup", Arg: fmt.Sprintf("session of user%d", s.user)})
							}
						}
					}
					d := time.Until(until.Add(avoidMargin))
					if d > 0 {
						time.Sleep(d)
					}
					waited = true
					ops = append(ops, authOp{Op: "wait-for-expiry", Arg: d.String()})
					for _, x := range held {
						if !storeForgot(x.h) {
							rec.Class("auth:inflight:expiry:store-timer-late-not-renewed")
							continue
						}
						inflightRenew(x.s, x.h, "expiry")
					}
				}
				continue
			}
			kinds := []string{"create-token", "create-token", "create-session", "create-session",
				"probe-token", "probe-token", "probe-token", "probe-token", "probe-session", "probe-session", "probe-session",
				"probe-odd", "probe-odd", "probe-odd", "probe-odd", "set-token-status", "set-token-status", "delete-token",
				"set-user-status", "set-user-status", "expire-session", "reopen-auth"}
			if !renewDisabled {
				kinds = append(kinds, "inflight-session", "inflight-session", "inflight-session", "inflight-session")
			}
			if i < 3 {
				kinds = []string{"create-token", "create-token", "create-session"}
			}
			if rapid.IntRange(0, 39).Draw(t, lbl+".del") == 0 {
				kinds = []string{"delete-user"}
			}
			kind := rapid.SampledFrom(kinds).Draw(t, lbl)
			switch kind {
			case "create-token":
				ui := rapid.IntRange(0, len(users)-1).Draw(t, lbl+".user")
				if !users[ui].exists {
					continue
				}
				st := influxdb.Active
				if rapid.IntRange(0, 4).Draw(t, lbl+".inactive") == 0 {
					st = influxdb.Inactive
				}
				a := &influxdb.Authorization{OrgID: org.ID, UserID: users[ui].id, Token: newToken(len(toks)), Status: st,
					Permissions: []influxdb.Permission{*perm}}
				tok := a.Token
				if err := f.authSvc.CreateAuthorization(ctx, a); err != nil {
					ops = append(ops, authOp{Op: kind, Arg: tok, Result: err.Error()})
					fail("create-token-failed", fmt.Sprintf("CreateAuthorization for user%d: %v", ui, err))
				}
				toks = append(toks, &mTok{id: a.ID, tok: tok, user: ui, exists: true, active: st == influxdb.Active})
				ops = append(ops, authOp{Op: kind, Arg: fmt.Sprintf("user%d %s %s", ui, st, tok)})
			case "set-token-status", "delete-token":
				live := liveToks(toks)
				if len(live) == 0 {
					continue
				}
				k := rapid.SampledFrom(live).Draw(t, lbl+".tok")
				if kind == "delete-token" {
					if err := f.authSvc.DeleteAuthorization(ctx, k.id); err != nil {
						fail("delete-token-failed", err.Error())
					}
					k.exists = false
					ops = append(ops, authOp{Op: kind, Arg: k.tok})
					continue
				}
				st := influxdb.Inactive
				if !k.active || rapid.IntRange(0, 3).Draw(t, lbl+".same") == 0 {
					st = influxdb.Active
				}
				if _, err := f.authSvc.UpdateAuthorization(ctx, k.id, &influxdb.AuthorizationUpdate{Status: &st}); err != nil {
					fail("update-token-failed", err.Error())
				}
				k.active = st == influxdb.Active
				ops = append(ops, authOp{Op: kind, Arg: fmt.Sprintf("%s %s", k.tok, st)})
			case "set-user-status":
				ui := rapid.IntRange(0, len(users)-1).Draw(t, lbl+".user")
				if !users[ui].exists {
					continue
				}
				st := influxdb.Inactive
				if !users[ui].active {
					st = influxdb.Active
				}
				if _, err := f.ten.UpdateUser(ctx, users[ui].id, influxdb.UserUpdate{Status: &st}); err != nil {
					fail("update-user-failed", err.Error())
				}
				users[ui].active = st == influxdb.Active
				ops = append(ops, authOp{Op: kind, Arg: fmt.Sprintf("user%d %s", ui, st)})
			case "delete-user":
				ui := rapid.IntRange(1, len(users)-1).Draw(t, lbl+".user")
				if !users[ui].exists {
					continue
				}
				if err := f.ten.DeleteUser(ctx, users[ui].id); err != nil {
					fail("delete-user-failed", err.Error())
				}
				users[ui].exists = false
				ops = append(ops, authOp{Op: kind, Arg: fmt.Sprintf("user%d", ui)})
			case "create-session":
				ui := rapid.IntRange(0, len(users)-1).Draw(t, lbl+".user")
				if !users[ui].exists {
					continue
				}
				c0 := time.Now()
				s, err := f.sessSvc.CreateSession(ctx, users[ui].name)
				c1 := time.Now()
				if err != nil {
					fail("create-session-failed", err.Error())
				}
				sessions = append(sessions, &mSess{key: s.Key, user: ui, lo: c0.Add(length), hi: c1.Add(length)})
				ops = append(ops, authOp{Op: kind, Arg: fmt.Sprintf("user%d", ui)})
			case "expire-session":
				var live []*mSess
				for _, s := range sessions {
					if !s.revoked && time.Now().Before(s.lo.Add(-avoidMargin)) {
						live = append(live, s)
					}
				}
				if len(live) == 0 {
					continue
				}
				s := rapid.SampledFrom(live).Draw(t, lbl+".sess")
				if err := f.sessSvc.ExpireSession(ctx, s.key); err != nil {
					fail("expire-session-failed", err.Error())
				}
				s.revoked = true
				ops = append(ops, authOp{Op: kind, Arg: fmt.Sprintf("session of user%d", s.user)})
			case "inflight-session":
				var live []*mSess
				for _, s := range sessions {
					if !s.revoked && time.Now().Before(s.lo.Add(-avoidMargin)) {
						live = append(live, s)
					}
				}
				if len(live) == 0 {
					continue
				}
				s := rapid.SampledFrom(live).Draw(t, lbl+".sess")
				between := rapid.SampledFrom([]string{"logout", "logout", "nothing", "user-status"}).Draw(t, lbl+".between")
				h, err := f.sessSvc.FindSession(ctx, s.key)
				ops = append(ops, authOp{Op: "inflight-lookup", Arg: fmt.Sprintf("session of user%d", s.user)})
				if err != nil {
					if userOK(s.user) && time.Now().Before(s.lo.Add(-expiryMargin)) {
						fail("valid-session-rejected", fmt.Sprintf("FindSession (the middleware's lookup) of a session that is not revoked, expires at the earliest in %v and belongs to an active user: %v", time.Until(s.lo), err))
					}
					rec.Class("auth:inflight:lookup-failed")
					continue
				}
				switch between {
				case "logout":
					if err := f.sessSvc.ExpireSession(ctx, s.key); err != nil {
						fail("expire-session-failed", err.Error())
					}
					s.revoked = true
					ops = append(ops, authOp{Op: "expire-session", Arg: fmt.Sprintf("session of user%d", s.user)})
				case "user-status":
					if u := users[s.user]; u.exists {
						st := influxdb.Inactive
						if !u.active {
							st = influxdb.Active
						}
						if _, err := f.ten.UpdateUser(ctx, u.id, influxdb.UserUpdate{Status: &st}); err != nil {
							fail("update-user-failed", err.Error())
						}
						u.active = st == influxdb.Active
						ops = append(ops, authOp{Op: "set-user-status", Arg: fmt.Sprintf("user%d %s", s.user, st)})
					}
				}
				inflightRenew(s, h, between)
			case "reopen-auth":
				hashed = rapid.Bool().Draw(t, lbl+".hashed")
				variant = rapid.SampledFrom([]string{influxdb2.VariantIdentifierSHA256, influxdb2.VariantIdentifierSHA512}).Draw(t, lbl+".variant")
				if err := f.openAuth(hashed, variant); err != nil {
					ops = append(ops, authOp{Op: kind, Arg: fmt.Sprintf("hashed=%v %s", hashed, variant), Result: err.Error()})
					fail("reopen-auth-store-failed", fmt.Sprintf("authorization.NewStore(hashed=%v, %s) on the existing KV store: %v", hashed, variant, err))
				}
				ops = append(ops, authOp{Op: kind, Arg: fmt.Sprintf("hashed=%v %s", hashed, variant)})
				rec.Class(fmt.Sprintf("auth:reopen:hashed=%v", hashed))
			case "probe-token":
				if len(toks) == 0 {
					continue
				}
				k := rapid.SampledFrom(toks).Draw(t, lbl+".tok")
				scheme := rapid.SampledFrom([]string{"Token ", "Token ", "Bearer "}).Draw(t, lbl+".scheme")
				cookie := ""
				if len(sessions) > 0 && rapid.IntRange(0, 5).Draw(t, lbl+".withcookie") == 0 {
					cookie = rapid.SampledFrom(sessions).Draw(t, lbl+".cookie").key
				}
				probe(authOp{Op: kind}, []string{scheme + k.tok}, cookie, true, k, nil)
			case "probe-session":
				if len(sessions) == 0 {
					continue
				}
				s := rapid.SampledFrom(sessions).Draw(t, lbl+".sess")
				now := time.Now()
				if !s.revoked && now.After(s.lo.Add(-avoidMargin)) && now.Before(s.hi.Add(avoidMargin)) {
					rec.Class("auth:probe:session:not-sent-near-expiry")
					continue
				}
				probe(authOp{Op: kind}, nil, s.key, true, nil, s)
			case "probe-odd":
				var base string
				if len(toks) > 0 {
					base = rapid.SampledFrom(toks).Draw(t, lbl+".tok").tok
				} else {
					base = "t99nothing=="
				}
				form := rapid.SampledFrom([]string{"lower", "upper", "nospace", "doublespace", "trailingspace", "basic", "bare",
					"edited", "truncated", "phc", "empty-token", "two-headers", "second-header", "arbitrary", "fab-cookie", "no-credentials"}).Draw(t, lbl+".form")
				op := authOp{Op: kind, Arg: form}
				switch form {
				case "lower":
					probe(op, []string{"token " + base}, "", false, nil, nil)
				case "upper":
					probe(op, []string{"BEARER " + base}, "", false, nil, nil)
				case "nospace":
					probe(op, []string{"Token" + base}, "", false, nil, nil)
				case "doublespace":
					probe(op, []string{"Token  " + base}, "", false, nil, nil)
				case "trailingspace":
					probe(op, []string{"Token " + base + " "}, "", false, nil, nil)
				case "basic":
					probe(op, []string{"Basic " + base}, "", false, nil, nil)
				case "bare":
					probe(op, []string{base}, "", false, nil, nil)
				case "edited":
					b := []byte(base)
					p := rapid.IntRange(0, len(b)-1).Draw(t, lbl+".pos")
					if b[p] == 'x' {
						b[p] = 'y'
					} else {
						b[p] = 'x'
					}
					probe(op, []string{"Token " + string(b)}, "", false, nil, nil)
				case "truncated":
					probe(op, []string{"Token " + base[:len(base)-1]}, "", false, nil, nil)
				case "phc":
					v := rapid.SampledFrom([]string{influxdb2.VariantIdentifierSHA256, influxdb2.VariantIdentifierSHA512}).Draw(t, lbl+".v")
					probe(op, []string{"Token " + refPHC(v, base)}, "", false, nil, nil)
				case "empty-token":
					probe(op, []string{"Token "}, "", false, nil, nil)
				case "two-headers":
					probe(op, []string{"Token zz-not-a-token", "Token " + base}, "", false, nil, nil)
				case "second-header":
					probe(op, []string{"Token " + base, "Token zz-not-a-token"}, "", false, nil, nil)
				case "arbitrary":
					h := rapid.StringOfN(rapid.RuneFrom([]rune("TtokenBbearer =$.-_xyz0")), 0, 24, -1).Draw(t, lbl+".hdr")
					probe(op, []string{h}, "", false, nil, nil)
				case "fab-cookie":
					key := "no-such-session-key"
					if len(sessions) > 0 {
						k := rapid.SampledFrom(sessions).Draw(t, lbl+".sess").key
						key = k[:len(k)-1] + "A"
						if key == k {
							key = k[:len(k)-1] + "B"
						}
					}
					probe(op, nil, key, false, nil, nil)
				case "no-credentials":
					probe(op, nil, "", false, nil, nil)
				}
				rec.Class("auth:probe:odd:" + form)
			}
		}
		// closing sweep: every credential of the history once more, canonically
		for _, k := range toks {
			probe(authOp{Op: "final-probe-token"}, []string{"Token " + k.tok}, "", true, k, nil)
		}
		for _, s := range sessions {
			now := time.Now()
			if !s.revoked && now.After(s.lo.Add(-avoidMargin)) && now.Before(s.hi.Add(avoidMargin)) {
				rec.Class("auth:probe:session:not-sent-near-expiry")
				continue
			}
			probe(authOp{Op: "final-probe-session"}, nil, s.key, true, nil, s)
		}

		rec.Eval()
		rec.ClassN("auth:probes", probes)
		rec.Class(fmt.Sprintf("auth:case:renew-disabled=%v", renewDisabled))
		if waited {
			rec.Class("auth:case:waited-for-session-expiry")
		}
		switch {
		case length < time.Second:
			rec.Class("auth:case:session-length=ms-expires-in-case")
		case length < influxdb.RenewSessionTime:
			rec.Class("auth:case:session-length=minutes-below-renew-time")
		default:
			rec.Class("auth:case:session-length=1h")
		}
		if inflightLost {
			rec.Class("auth:case:inflight-renewal-of-lost-session")
		}
		if lostThenProbed {
			rec.Class("auth:case:lost-credential-probed")
			c["ops"] = ops
			rec.NonTrivial(fmt.Sprintf("auth|%v", canonAuth(ops)))
			if rec.WantSample() && waited {
				rec.Sample(c)
			}
		}
	})
}

func canonAuth(ops []authOp) string {
	var sb strings.Builder
	for _, o := range ops {
		sb.WriteString(o.Op + ":" + o.Arg + ":" + o.Header + ";")
	}
	return sb.String()
}

func indexTok(toks []*mTok, x *mTok) int {
	for i, k := range toks {
		if k == x {
			return i
		}
	}
	return -1
}

func liveToks(toks []*mTok) []*mTok {
	var out []*mTok
	for _, k := range toks {
		if k.exists {
			out = append(out, k)
		}
	}
	return out
}

func credClass(exists, active, userOK bool) string {
	switch {
	case !exists:
		return "deleted"
	case !active:
		return "inactive"
	case !userOK:
		return "user-inactive-or-deleted"
	}
	return "valid"
}

func sessClass(revoked, expired, userOK bool) string {
	switch {
	case revoked:
		return "revoked"
	case expired:
		return "expired"
	case !userOK:
		return "user-inactive-or-deleted"
	}
	return "?"
}
