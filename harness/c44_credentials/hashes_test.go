// C44 part 2: token hashes of pkg/crypt/algorithm/influxdb2 (the format in which API tokens are
// stored) verify exactly their own input.
//
// Generator: a variant of AllVariants, a token (arbitrary string: API-token-like, unicode, NUL,
// empty), a second token derived from it (one character changed, prefix, extension, case flip,
// doubled) or independent, and a one-character mutation of the encoded hash.
// Oracle (independent: crypto/sha256, crypto/sha512, base64url from the standard library):
//   - Hash(token).Encode() == "$<variant id>$" + base64url(SHA(token)) and is deterministic;
//   - the decoder returns a digest of the same variant whose key is SHA(token); that digest matches
//     token and matches a second token iff it is the same string;
//   - a decoder for a different variant refuses the encoding;
//   - a mutated encoding either fails to decode, or decodes to (variant', key') and then matches
//     token iff key' == SHA_variant'(token): a stored hash verifies exactly the inputs that hash to it;
//   - the same through authorization.AuthorizationHasher (Hash / Match / AllHashes).
package c44_credentials

import (
	"bytes"
	"crypto/sha256"
	"crypto/sha512"
	"encoding/base64"
	"fmt"
	"testing"

	"github.com/go-crypt/crypt"
	"github.com/influxdata/influxdb/v2/authorization"
	"github.com/influxdata/influxdb/v2/pkg/crypt/algorithm/influxdb2"
	"pgregory.net/rapid"
)

func refHash(v influxdb2.Variant, tok string) []byte {
	switch v {
	case influxdb2.VariantSHA256:
		h := sha256.Sum256([]byte(tok))
		return h[:]
	case influxdb2.VariantSHA512:
		h := sha512.Sum512([]byte(tok))
		return h[:]
	}
	return nil
}

func refID(v influxdb2.Variant) string {
	switch v {
	case influxdb2.VariantSHA256:
		return "influxdb2-sha256"
	case influxdb2.VariantSHA512:
		return "influxdb2-sha512"
	}
	return "?"
}

func genToken(t *rapid.T, label string) string {
	switch rapid.IntRange(0, 5).Draw(t, label+".shape") {
	case 0:
		return rapid.String().Draw(t, label+".any")
	case 1:
		return rapid.StringOfN(rapid.RuneFrom([]rune("ab\x00$=_-")), 0, 12, -1).Draw(t, label+".hostile")
	default:
		// what rand.NewTokenGenerator(64) produces: base64url text ending in ==
		return rapid.StringOfN(rapid.RuneFrom([]rune("ABCDEFGHIJKLMNOPQRSTUVWXYZabcdefghijklmnopqrstuvwxyz0123456789-_")), 8, 86, -1).Draw(t, label+".b64") + "=="
	}
}

func deriveOther(t *rapid.T, tok string) (string, string) {
	k := rapid.SampledFrom([]string{"same", "independent", "edit", "prefix", "extend", "case", "double"}).Draw(t, "other.kind")
	switch k {
	case "same":
		return tok, k
	case "independent":
		return genToken(t, "other"), k
	case "edit":
		if len(tok) == 0 {
			return "x", k
		}
		b := []byte(tok)
		i := rapid.IntRange(0, len(b)-1).Draw(t, "other.pos")
		b[i] ^= byte(rapid.IntRange(1, 255).Draw(t, "other.xor"))
		return string(b), k
	case "prefix":
		if len(tok) == 0 {
			return "p", k
		}
		return tok[:len(tok)-1], k
	case "extend":
		return tok + rapid.SampledFrom([]string{"\x00", " ", "=", "a"}).Draw(t, "other.ext"), k
	case "case":
		return flipCase(tok), k
	}
	return tok + tok, k
}

func TestPropTokenHashes(t *testing.T) {
	const name = "TestPropTokenHashes"
	full := crypt.NewDecoder()
	if err := influxdb2.RegisterDecoder(full); err != nil {
		t.Fatal(err)
	}
	rec.Check(t, 6000, 60000, func(t *rapid.T) {
		v := rapid.SampledFrom(influxdb2.AllVariants).Draw(t, "variant")
		tok := genToken(t, "tok")
		other, okind := deriveOther(t, tok)
		c := map[string]any{"variant": refID(v), "token": fmt.Sprintf("%q", tok), "other": fmt.Sprintf("%q", other)}
		fail := func(key, detail string) { rec.Fail(t, name, key, detail, c) }

		h, err := influxdb2.New(influxdb2.WithVariant(v))
		if err != nil {
			fail("hasher-construction", err.Error())
		}
		d, err := h.Hash(tok)
		if err != nil {
			fail("hash-failed", err.Error())
		}
		phc := d.Encode()
		want := "$" + refID(v) + "$" + base64.URLEncoding.EncodeToString(refHash(v, tok))
		if phc != want {
			fail("encoding-not-sha-of-token", fmt.Sprintf("Hash(%q).Encode() = %q, reference %q", tok, phc, want))
		}
		if d2, _ := h.Hash(tok); d2.Encode() != phc {
			fail("hash-not-deterministic", fmt.Sprintf("two encodings of %q differ", tok))
		}
		dg, err := full.Decode(phc)
		if err != nil {
			fail("own-encoding-not-decodable", fmt.Sprintf("Decode(%q): %v", phc, err))
		}
		id, ok := dg.(*influxdb2.Digest)
		if !ok || id.Variant != v || !bytes.Equal(id.Key(), refHash(v, tok)) {
			fail("decoded-digest-differs", fmt.Sprintf("Decode(%q) = %#v, want variant %s and key SHA(token)", phc, dg, refID(v)))
		}
		if !dg.Match(tok) {
			fail("hash-rejects-own-token", fmt.Sprintf("decoded %q does not match its own token %q", phc, tok))
		}
		if got := dg.Match(other); got != (other == tok) {
			fail("hash-verifies-other-token", fmt.Sprintf("decoded hash of %q: Match(%q)=%v", tok, other, got))
		}
		for _, v2 := range influxdb2.AllVariants {
			if v2 == v {
				continue
			}
			if dgx, err := influxdb2.DecodeVariant(v2)(phc); err == nil {
				fail("variant-confusion", fmt.Sprintf("the %s-only decoder accepted %q as %#v", refID(v2), phc, dgx))
			}
		}
		// one-character mutation of the stored form
		pos := rapid.IntRange(0, len(phc)-1).Draw(t, "mut.pos")
		repl := rapid.SampledFrom([]byte("ABab01-_=$5/+ ")).Draw(t, "mut.byte")
		mut := []byte(phc)
		mclass := "mutation:identical"
		if mut[pos] != repl {
			mut[pos] = repl
			mdg, err := full.Decode(string(mut))
			switch {
			case err != nil:
				mclass = "mutation:undecodable"
			default:
				mid, ok := mdg.(*influxdb2.Digest)
				if !ok {
					fail("mutated-decodes-to-foreign-digest", fmt.Sprintf("%q decoded to %T", mut, mdg))
				}
				expect := bytes.Equal(mid.Key(), refHash(mid.Variant, tok))
				if got := mdg.Match(tok); got != expect {
					fail("mutated-hash-verification", fmt.Sprintf("stored form %q (mutated from %q): Match(%q)=%v but key==SHA(token) is %v", mut, phc, tok, got, expect))
				}
				mclass = fmt.Sprintf("mutation:decodable-match=%v", expect)
			}
		}
		// the hasher the authorization store uses
		ah, err := authorization.NewAuthorizationHasher(authorization.WithHasherVariant(v))
		if err != nil {
			fail("authorization-hasher", err.Error())
		}
		aphc, err := ah.Hash(tok)
		if err != nil || aphc != want {
			fail("encoding-not-sha-of-token", fmt.Sprintf("AuthorizationHasher.Hash(%q) = %q, %v; reference %q", tok, aphc, err, want))
		}
		if m, err := ah.Match(aphc, other); err != nil || m != (other == tok) {
			fail("hash-verifies-other-token", fmt.Sprintf("AuthorizationHasher.Match(hash(%q), %q) = %v, %v", tok, other, m, err))
		}
		all, err := ah.AllHashes(tok)
		if err != nil || len(all) != len(influxdb2.AllVariants) {
			fail("all-hashes", fmt.Sprintf("AllHashes(%q) = %v, %v", tok, all, err))
		}
		found := false
		for _, x := range all {
			found = found || x == want
		}
		if !found {
			fail("all-hashes", fmt.Sprintf("AllHashes(%q) = %v lacks the %s form %q", tok, all, refID(v), want))
		}

		rec.Eval()
		rec.Class("hash:variant:" + refID(v))
		rec.Class("hash:other:" + okind)
		rec.Class("hash:" + mclass)
		if other != tok {
			rec.NonTrivial(fmt.Sprintf("hash|%s|%q|%q|%d|%c", refID(v), tok, other, pos, repl))
		}
	})
}

// FuzzDecode (thorough tier): the decoder never panics; whatever it accepts has a known variant,
// a non-empty key, and verifies a token iff the key is that variant's SHA of the token.
func FuzzDecode(f *testing.F) {
	f.Add("$influxdb2-sha256$kMrC1MoFhWvvKSgyqpMaLuo2O3LINv4_XByCSkfV9K0=", "c27cb2033ab304629d32e1dbcd0ca7186322d3be98af5dd4c329ab800ef85d73")
	f.Add("$influxdb2-sha512$ffgzLTTAyWBDczT0kKzwLzLjlemQh6UiFvqIA0CPd-B7qgqAetWEuKRI9qOLeE4ak6mxcxwthyKUO40sHf5V5w==", "322be1195f22da43a88e5ef1e856b707d6b7d41a6068feec343decbc5d784e50")
	f.Add("$influxdb2-sha256$", "")
	f.Add("$$", "x")
	f.Add("$influxdb2-sha256$AA==$extra", "x")
	full := crypt.NewDecoder()
	if err := influxdb2.RegisterDecoder(full); err != nil {
		f.Fatal(err)
	}
	f.Fuzz(func(t *testing.T, phc, tok string) {
		dg, err := full.Decode(phc)
		if err != nil {
			return
		}
		id, ok := dg.(*influxdb2.Digest)
		if !ok {
			t.Fatalf("decoded %q to %T", phc, dg)
		}
		if refHash(id.Variant, "") == nil || len(id.Key()) == 0 {
			t.Fatalf("accepted %q with variant %v and %d key bytes", phc, id.Variant, len(id.Key()))
		}
		if got, want := dg.Match(tok), bytes.Equal(id.Key(), refHash(id.Variant, tok)); got != want {
			t.Fatalf("stored form %q: Match(%q)=%v, key==SHA(token) is %v", phc, tok, got, want)
		}
	})
}
