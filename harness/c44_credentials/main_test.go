package c44_credentials

import (
	"testing"

	"verifharness/internal/ev"
)

func TestMain(m *testing.M) {
	ev.Main(m)
}
