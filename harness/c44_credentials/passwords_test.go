// C44 — Only current credentials authenticate.
//
// Part 1 (this file): password histories on the tenant password service (bcrypt).
// Generator: two users (+ an unknown user id, + deletion of a user) and a history of
// SetPassword / ComparePassword / CompareAndSetPassword calls, each through the service with the
// strong-password option off or on (same store: the option can be switched on later in a
// deployment). Passwords come from a pool around the documented limits (7/8 and 72/73 bytes,
// multi-byte unicode, prefixes/extensions/case variants of one another, leading/trailing space)
// plus random printable strings, and — derived from the user's CURRENT password — one-character
// edits, and the two bcrypt key-equivalent forms (P+NUL+P, and a 72-byte P with a suffix).
// bcrypt costs ~70 ms per hash/compare: a history stops after ~5 bcrypt operations (+2 closing), the quick tier
// runs 11 histories (calls that never reach bcrypt — unknown user, no password, rejected by the
// length/strength check — are free and more numerous).
// Oracle (model: current password per user):
//   - ComparePassword(u,p) returns nil ONLY IF p is the password most recently set for u (by
//     SetPassword or a successful CompareAndSetPassword); if p is current and passes the policy of
//     the service asked, it MUST return nil; current-but-weak-under-that-policy must not be nil;
//   - CompareAndSetPassword(u,old,new) succeeds iff old is current and new passes the policy; on
//     failure nothing changes; afterwards only new verifies;
//   - SetPassword fails for passwords outside 8..72 bytes (and, strong option, with fewer than 3
//     of the 4 character classes) and then changes nothing;
//   - unknown user, deleted user, user without password: never verify, cannot be changed by CAS.
package c44_credentials

import (
	"context"
	"fmt"
	"strings"
	"testing"
	"unicode"

	"github.com/influxdata/influxdb/v2"
	"github.com/influxdata/influxdb/v2/inmem"
	"github.com/influxdata/influxdb/v2/kit/platform"
	"github.com/influxdata/influxdb/v2/kv/migration/all"
	"github.com/influxdata/influxdb/v2/tenant"
	"go.uber.org/zap"
	"pgregory.net/rapid"

	"verifharness/internal/ev"
)

const (
	propID        = "C44"
	keyBcryptEquv = "bcrypt-key-equivalence"
)

var rec = ev.For(propID, "exploration",
	"password cases: one history of set/compare/compare-and-set calls on 2 users; request cases: one history of token/session/user operations and probes through http.AuthenticationHandler; non-trivial = a credential (password, token, session) that used to verify/authenticate stops doing so (changed, deactivated, deleted, expired, user deactivated) and is probed afterwards; hash cases: (variant, token, other token, mutated encoding); distinct by canonical rendering of the history")

// ---- documented password policy ------------------------------------------------------------

const specialChars = `!@#$%^&*()_+`

func lengthOK(p string) bool { return len(p) >= 8 && len(p) <= 72 }

func classCount(p string) int {
	var num, up, low, spec bool
	for _, r := range p {
		num = num || unicode.IsNumber(r)
		up = up || unicode.IsUpper(r)
		low = low || unicode.IsLower(r)
		spec = spec || strings.ContainsRune(specialChars, r)
	}
	n := 0
	for _, b := range []bool{num, up, low, spec} {
		if b {
			n++
		}
	}
	return n
}

func policyOK(p string, strong bool) bool {
	return lengthOK(p) && (!strong || classCount(p) >= 3)
}

// bcryptKey72 is the part of a password bcrypt actually uses: the NUL-terminated password
// repeated cyclically over the 72 key bytes of the Blowfish schedule.
func bcryptKey72(p string) [72]byte {
	k := append([]byte(p), 0)
	var out [72]byte
	for i := range out {
		out[i] = k[i%len(k)]
	}
	return out
}

// bcryptEquiv: different passwords with the same bcrypt key (signature of the known finding).
func bcryptEquiv(a, b string) bool { return a != b && bcryptKey72(a) == bcryptKey72(b) }

// ---- fixture -------------------------------------------------------------------------------

type pwFix struct {
	weak, strong *tenant.Service
}

func newPwFix(t interface{ Fatalf(string, ...any) }) *pwFix {
	ctx := context.Background()
	kvs := inmem.NewKVStore()
	if err := all.Up(ctx, zap.NewNop(), kvs); err != nil {
		t.Fatalf("migrations: %v", err)
	}
	st := tenant.NewStore(kvs)
	return &pwFix{weak: tenant.NewService(st), strong: tenant.NewService(st, tenant.WithPasswordChecking(true))}
}

func (f *pwFix) svc(strong bool) *tenant.Service {
	if strong {
		return f.strong
	}
	return f.weak
}

var pw72 = strings.Repeat("Aa1!", 18)

var passwordPool = []string{
	"abcdefgh",         // minimum length, one class
	"abcdefg",          // too short
	"abcdefghi",        // extension of the first
	"ABCDEFGH",         // case variant
	"Abcdefg1",         // minimum length, three classes
	"Abcdefg1!",        // extension
	" abcdefgh",        // leading space
	"abcdefgh ",        // trailing space
	"pässwörd-ünï",     // multi-byte lower case
	"密码密码密码Aa1",        // multi-byte, three classes
	"Пароль123!",       // cyrillic upper/lower + digit + special
	"correct horse 9B", // spaces inside
	pw72,               // maximum length
	pw72[:71] + "?",    // maximum length, last byte differs
	pw72 + "X",         // too long (73)
	pw72[:71],          // 71 bytes: prefix of the maximum one
	"",                 // empty
}

type pwOp struct {
	Op     string `json:"op"`
	User   int    `json:"user"`
	Strong bool   `json:"strong_option"`
	P      string `json:"p,omitempty"`
	New    string `json:"new,omitempty"`
	Err    string `json:"err"`
}

type pwUser struct {
	id      platform.ID
	exists  bool
	hasPw   bool
	cur     string
	history []string // earlier passwords (no longer current)
}

func flipCase(s string) string {
	for i, r := range s {
		if unicode.IsLower(r) {
			return s[:i] + string(unicode.ToUpper(r)) + s[i+len(string(r)):]
		}
		if unicode.IsUpper(r) {
			return s[:i] + string(unicode.ToLower(r)) + s[i+len(string(r)):]
		}
	}
	return s + "x"
}

// candidate draws a password to try against user u.
func candidate(t *rapid.T, label string, u *pwUser) (string, string) {
	kinds := []string{"pool", "pool", "random"}
	if u.hasPw {
		// bcrypt budget: spend it on the informative candidates
		kinds = []string{"pool", "random", "current", "current", "current", "edit", "edit", "equiv"}
	}
	if len(u.history) > 0 {
		kinds = append(kinds, "previous", "previous", "previous", "previous")
	}
	k := rapid.SampledFrom(kinds).Draw(t, label+".kind")
	switch k {
	case "current":
		return u.cur, k
	case "previous":
		return rapid.SampledFrom(u.history).Draw(t, label+".prev"), k
	case "edit":
		c := u.cur
		switch rapid.IntRange(0, 4).Draw(t, label+".edit") {
		case 0:
			return c + "x", k
		case 1:
			if len(c) > 0 {
				return c[:len(c)-1], k
			}
			return c + "y", k
		case 2:
			return flipCase(c), k
		case 3:
			return c + " ", k
		default:
			return "x" + c, k
		}
	case "equiv":
		if len(u.cur) == 72 {
			return u.cur + rapid.SampledFrom([]string{"X", "tail-that-is-ignored"}).Draw(t, label+".tail"), k
		}
		return u.cur + "\x00" + u.cur, k
	case "random":
		return rapid.StringOfN(rapid.RuneFrom([]rune("abcXYZ019!_ ")), 6, 14, -1).Draw(t, label+".rnd"), k
	}
	return rapid.SampledFrom(passwordPool).Draw(t, label+".pool"), k
}

func TestPropPasswords(t *testing.T) {
	const name = "TestPropPasswords"
	rec.Assume("passwords: both services (strong-password option off/on) share one store; an empty password is never passed to the service with the strong option (IsPasswordStrong divides by len(password): ComparePassword(\"\") panics there — reported separately, not a wrong verdict); candidates that are bcrypt-key-equivalent to the current password are the signature of known finding " + keyBcryptEquv)
	const bcryptBudget = 5
	rec.Check(t, 11, 150, func(t *rapid.T) {
		ctx := context.Background()
		f := newPwFix(t)
		users := []*pwUser{{}, {}, {id: platform.ID(0xdead0001)}} // the third never exists
		for i := 0; i < 2; i++ {
			u := &influxdb.User{Name: fmt.Sprintf("user%d", i)}
			if err := f.weak.CreateUser(ctx, u); err != nil {
				t.Fatalf("create user: %v", err)
			}
			users[i].id, users[i].exists = u.ID, true
		}
		var ops []pwOp
		fail := func(key, detail string) { rec.Fail(t, name, key, detail, ops) }
		spent, changedThenProbed := 0, false

		// user 0 always starts with a password so that every history has something to protect
		first := rapid.SampledFrom([]string{"abcdefgh", "Abcdefg1", pw72, "密码密码密码Aa1", "correct horse 9B"}).Draw(t, "first")
		if err := f.weak.SetPassword(ctx, users[0].id, first); err != nil {
			ops = append(ops, pwOp{Op: "set", P: first, Err: err.Error()})
			fail("set-valid-password-rejected", fmt.Sprintf("SetPassword(%q) of an existing user failed: %v", first, err))
		}
		users[0].hasPw, users[0].cur = true, first
		ops = append(ops, pwOp{Op: "set", P: first})
		spent++

		for step := 0; step < 30 && spent < bcryptBudget; step++ {
			ui := rapid.SampledFrom([]int{0, 0, 0, 0, 0, 1, 1, 2}).Draw(t, fmt.Sprintf("s%d.user", step))
			u := users[ui]
			strong := rapid.IntRange(0, 9).Draw(t, fmt.Sprintf("s%d.strong", step)) < 3
			kind := rapid.SampledFrom([]string{"set", "set", "compare", "compare", "compare", "compare", "cas", "cas", "cas", "delete-user"}).Draw(t, fmt.Sprintf("s%d.op", step))
			op := pwOp{Op: kind, User: ui, Strong: strong}
			reaches := u.exists && u.hasPw // compare/cas reach bcrypt
			switch kind {
			case "set":
				op.P = rapid.SampledFrom(passwordPool).Draw(t, fmt.Sprintf("s%d.p", step))
				if op.P == "" && strong {
					op.Strong, strong = false, false
				}
				err := f.svc(strong).SetPassword(ctx, u.id, op.P)
				op.Err = errString(err)
				ops = append(ops, op)
				want := u.exists && policyOK(op.P, strong)
				if policyOK(op.P, strong) {
					spent++ // hashed before the user lookup
				}
				if want != (err == nil) {
					fail("set-password-outcome", fmt.Sprintf("SetPassword(user%d exists=%v, %q, strong option %v) returned %v; documented policy says accepted=%v", ui, u.exists, op.P, strong, err, want))
				}
				if err == nil {
					if u.hasPw && u.cur != op.P {
						u.history = append(u.history, u.cur)
					}
					u.hasPw, u.cur = true, op.P
				}
				rec.Class("pw:set:" + okClass(err))
			case "compare":
				var ck string
				op.P, ck = candidate(t, fmt.Sprintf("s%d.c", step), u)
				if op.P == "" && strong {
					op.Strong, strong = false, false
				}
				// the listed finding covers, for ComparePassword, only candidates that pass its length
				// bound (<= 72 bytes: the NUL form); a longer candidate with the same bcrypt key (a
				// 72-byte password plus a suffix) is rejected by that bound and stays asserted
				if reaches && bcryptEquiv(op.P, u.cur) && len(op.P) <= 72 && ev.KnownOpen(propID, keyBcryptEquv) {
					rec.ExcludedKnown(keyBcryptEquv)
					continue
				}
				if reaches && bcryptEquiv(op.P, u.cur) {
					rec.Class("pw:compare:key-equivalent-but-too-long")
				}
				err := f.svc(strong).ComparePassword(ctx, u.id, op.P)
				op.Err = errString(err)
				ops = append(ops, op)
				if reaches {
					spent++
				}
				isCurrent := reaches && op.P == u.cur
				switch {
				case err == nil && !isCurrent:
					fail("wrong-password-verifies", fmt.Sprintf("ComparePassword(user%d, %q) succeeded; exists=%v hasPassword=%v current=%q", ui, op.P, u.exists, u.hasPw, u.cur))
				case isCurrent && policyOK(op.P, strong) && err != nil:
					fail("current-password-rejected", fmt.Sprintf("ComparePassword(user%d, %q) = %v although it is the password most recently set (strong option %v)", ui, op.P, err, strong))
				case isCurrent && !policyOK(op.P, strong) && err == nil:
					fail("weak-current-password-accepted", fmt.Sprintf("ComparePassword(user%d, %q) succeeded although the password violates the policy of the service asked (strong option %v)", ui, op.P, strong))
				}
				if !isCurrent && ck == "previous" {
					changedThenProbed = true
				}
				rec.Class("pw:compare:" + ck + ":" + okClass(err))
			case "cas":
				var ck string
				op.P, ck = candidate(t, fmt.Sprintf("s%d.old", step), u)
				op.New = rapid.SampledFrom(append([]string{"Abcdefg1", "abcdefghi", "pässwörd-ünï", pw72, "Пароль123!", "correct horse 9B"}, passwordPool...)).Draw(t, fmt.Sprintf("s%d.new", step))
				if reaches && bcryptEquiv(op.P, u.cur) && ev.KnownOpen(propID, keyBcryptEquv) {
					rec.ExcludedKnown(keyBcryptEquv)
					continue
				}
				if op.New == "" && strong {
					op.Strong, strong = false, false
				}
				err := f.svc(strong).CompareAndSetPassword(ctx, u.id, op.P, op.New)
				op.Err = errString(err)
				ops = append(ops, op)
				oldOK := reaches && op.P == u.cur
				if reaches {
					spent++
					if oldOK && policyOK(op.New, strong) {
						spent++
					}
				}
				want := oldOK && policyOK(op.New, strong)
				if want != (err == nil) {
					key := "cas-outcome"
					if err == nil && !oldOK {
						key = "cas-accepts-wrong-old-password"
					}
					fail(key, fmt.Sprintf("CompareAndSetPassword(user%d, old=%q, new=%q, strong option %v) returned %v; current=%q hasPassword=%v => expected success=%v", ui, op.P, op.New, strong, err, u.cur, u.hasPw, want))
				}
				if err == nil {
					if u.cur != op.New {
						u.history = append(u.history, u.cur)
					}
					u.cur = op.New
				}
				rec.Class("pw:cas:old-" + ck + ":" + okClass(err))
			case "delete-user":
				if ui != 1 || !u.exists {
					continue // only the second user is ever deleted (user 0 carries the history)
				}
				if err := f.weak.DeleteUser(ctx, u.id); err != nil {
					t.Fatalf("delete user: %v", err)
				}
				ops = append(ops, op)
				if u.hasPw {
					u.history = append(u.history, u.cur)
				}
				u.exists, u.hasPw = false, false
				rec.Class("pw:delete-user")
			}
		}
		// closing check (<= 2 bcrypt operations): the model's current password of user 0 verifies,
		// one earlier password does not
		u := users[0]
		if err := f.weak.ComparePassword(ctx, u.id, u.cur); err != nil {
			ops = append(ops, pwOp{Op: "final-compare", P: u.cur, Err: err.Error()})
			fail("current-password-rejected", fmt.Sprintf("at the end of the history ComparePassword(user0, %q) = %v although it is the password most recently set", u.cur, err))
		}
		if len(u.history) > 0 {
			old := u.history[len(u.history)-1]
			if old != u.cur && !(bcryptEquiv(old, u.cur) && ev.KnownOpen(propID, keyBcryptEquv)) {
				if err := f.weak.ComparePassword(ctx, u.id, old); err == nil {
					ops = append(ops, pwOp{Op: "final-compare-old", P: old})
					fail("wrong-password-verifies", fmt.Sprintf("at the end of the history the replaced password %q still verifies (current %q)", old, u.cur))
				}
				changedThenProbed = true
			}
		}
		rec.Eval()
		rec.ClassN("pw:bcrypt-ops", spent+2)
		if changedThenProbed {
			rec.Class("pw:case:replaced-password-probed")
			rec.NonTrivial("pw|" + fmt.Sprintf("%+v", ops))
		}
		if rec.WantSample() && changedThenProbed {
			rec.Sample(ops)
		}
	})
}

func errString(err error) string {
	if err == nil {
		return ""
	}
	return err.Error()
}

func okClass(err error) string {
	if err == nil {
		return "ok"
	}
	return "rejected"
}

// TestKnown_bcrypt_key_equivalence: two deterministic reproducers of the finding.
func TestKnown_bcrypt_key_equivalence(t *testing.T) {
	ctx := context.Background()
	f := newPwFix(t)
	u := &influxdb.User{Name: "known"}
	if err := f.weak.CreateUser(ctx, u); err != nil {
		t.Fatal(err)
	}
	if err := f.weak.SetPassword(ctx, u.ID, "abcdefgh"); err != nil {
		t.Fatal(err)
	}
	other := "abcdefgh\x00abcdefgh"
	cmpErr := f.weak.ComparePassword(ctx, u.ID, other)
	if err := f.weak.SetPassword(ctx, u.ID, pw72); err != nil {
		t.Fatal(err)
	}
	casErr := f.weak.CompareAndSetPassword(ctx, u.ID, pw72+"X", "a-new-password-1")
	reproduced := cmpErr == nil || casErr == nil
	rec.Known(t, "TestKnown_bcrypt_key_equivalence", keyBcryptEquv, reproduced,
		fmt.Sprintf("password set to \"abcdefgh\": ComparePassword(%q) returns %v (nil = a different password verifies); password set to a 72-byte string P: CompareAndSetPassword(old=P+\"X\", new) returns %v (nil = the password was changed with a wrong old password). bcrypt only uses the NUL-terminated password repeated cyclically over 72 key bytes", other, cmpErr, casErr),
		map[string]any{"compare_err": errString(cmpErr), "cas_err": errString(casErr)})
}

// TestPropPasswordLengthBound: bcrypt reads at most 72 bytes of a password. For a password of
// (nearly) that length, the check must still succeed for that password only: not for a longer
// candidate that merely starts with it, not for a shorter prefix of it. (3 bcrypt operations per
// case; the candidates here are outside the listed finding bcrypt-key-equivalence, which is about
// the NUL form for ComparePassword and about CompareAndSetPassword.)
func TestPropPasswordLengthBound(t *testing.T) {
	const name = "TestPropPasswordLengthBound"
	rec.Check(t, 20, 120, func(t *rapid.T) {
		ctx := context.Background()
		f := newPwFix(t)
		u := &influxdb.User{Name: "user0"}
		if err := f.weak.CreateUser(ctx, u); err != nil {
			t.Fatalf("create user: %v", err)
		}
		n := rapid.SampledFrom([]int{72, 72, 72, 71, 70, 64}).Draw(t, "len")
		p := rapid.StringOfN(rapid.RuneFrom([]rune("abcdefghijklmnopqrstuvwxyzABCXYZ0189!_ -")), n, n, n).Draw(t, "pw")
		var ops []pwOp
		fail := func(key, detail string) { rec.Fail(t, name, key, detail, ops) }
		if err := f.weak.SetPassword(ctx, u.ID, p); err != nil {
			ops = append(ops, pwOp{Op: "set", P: p, Err: err.Error()})
			fail("set-valid-password-rejected", fmt.Sprintf("SetPassword of a %d-byte password failed: %v", n, err))
		}
		ops = append(ops, pwOp{Op: "set", P: p})
		strong := rapid.Bool().Draw(t, "strong") && policyOK(p, true)
		var cand, kind string
		switch rapid.SampledFrom([]int{0, 0, 0, 1, 2, 3}).Draw(t, "kind") {
		case 0:
			cand, kind = p+rapid.StringOfN(rapid.RuneFrom([]rune("xX9 !")), 1, 8, -1).Draw(t, "suffix"), "longer-with-current-as-prefix"
		case 1:
			cand, kind = p+p, "current-twice"
		case 2:
			cand, kind = p[:len(p)-rapid.IntRange(1, 3).Draw(t, "cut")], "prefix-of-current"
		default:
			cand, kind = p, "current"
		}
		err := f.svc(strong).ComparePassword(ctx, u.ID, cand)
		ops = append(ops, pwOp{Op: "compare", P: cand, Strong: strong, Err: errString(err)})
		switch {
		case cand != p && err == nil:
			fail("wrong-password-verifies", fmt.Sprintf("password of %d bytes set; ComparePassword succeeded for a %d-byte candidate (%s)", len(p), len(cand), kind))
		case cand == p && err != nil:
			fail("current-password-rejected", fmt.Sprintf("ComparePassword of the %d-byte password most recently set = %v", len(p), err))
		}
		rec.Eval()
		rec.Class("pwlen:" + kind + ":" + okClass(err))
		if cand != p && len(p) == 72 && len(cand) > 72 {
			rec.NonTrivial(fmt.Sprintf("%d|%s|%d", len(p), kind, len(cand)))
			rec.Class("pwlen:72-byte-password-and-longer-candidate")
		}
	})
}
