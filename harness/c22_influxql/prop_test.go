package c22_influxql

import (
	"encoding/json"
	"fmt"
	"os"
	"reflect"
	"sort"
	"strings"
	"testing"
	"time"

	"github.com/influxdata/influxdb/v2/kit/platform"
	"github.com/influxdata/influxdb/v2/models"
	"github.com/influxdata/influxdb/v2/storage"
	"pgregory.net/rapid"

	"verifharness/internal/ev"
	"verifharness/internal/fix"
	"verifharness/internal/refql"
	"verifharness/internal/scratch"
)

var rec = ev.For("C22", "exploration",
	"random multi-series datasets (1-4 shard groups, 1-4 write batches with snapshots/compaction/reopen, overwrites, shared timestamps) "+
		"and random queries of the InfluxQL subset (about a quarter of them with 2-4 calls in one statement over fields with different coverage and about one in seven a lone MIN()/MAX() selector over data with repeated extreme values) rendered to text and parsed by the real parser; NON-TRIVIAL = data in >=2 shards, "+
		"query with GROUP BY time and a fill mode other than none or with LIMIT/OFFSET, non-empty expected result; DISTINCT by (dataset, query text)")

const (
	keySLimit       = "slimit-per-shard-tagsets"
	keyPrevDesc     = "fill-previous-desc-uses-later-bucket"
	keyOffset       = "offset-without-limit-truncates-shard"
	keySOffset      = "soffset-without-slimit-empty"
	keyLimitPerCall = "limit-offset-per-call-in-multi-call-statement"
)

func toModelsPoint(ds *dataset, w write) (models.Point, error) {
	fields := models.Fields{}
	for k, v := range w.Fields {
		switch v.K {
		case refql.Float:
			fields[k] = v.F
		case refql.Integer:
			fields[k] = v.I
		case refql.Unsigned:
			fields[k] = v.U
		case refql.String:
			fields[k] = v.S
		default:
			fields[k] = v.B
		}
	}
	return models.NewPoint(w.Meas, models.NewTags(ds.Series[w.Series]), fields, time.Unix(0, w.T))
}

// newStack opens the full storage stack with 1 h shard groups. The points writer's write timeout
// (10 s by default) is raised: on a loaded machine a write can stall that long, which is not
// what this property is about.
func newStack(dir string) (*fix.Stack, error) {
	s := &fix.Stack{Root: dir, ShardDur: time.Hour, Org: platform.ID(0x1000), Bucket: platform.ID(0x2000),
		Tweak: func(c *storage.Config) { c.WriteTimeout = 10 * time.Minute }}
	return s, s.Open(true)
}

// load builds the stack for a dataset: batches written through Engine.WritePoints, shards
// snapshotted / compacted / the engine reopened in between as the dataset says.
func load(ds *dataset) (*fix.Stack, func(), error) {
	dir, err := scratch.Dir("c22")
	if err != nil {
		return nil, nil, err
	}
	s, err := newStack(dir)
	if err != nil {
		os.RemoveAll(dir)
		return nil, nil, err
	}
	cleanup := func() { s.Close(); os.RemoveAll(dir) }
	for _, b := range ds.Batches {
		var pts []models.Point
		for _, w := range b.Writes {
			p, err := toModelsPoint(ds, w)
			if err != nil {
				cleanup()
				return nil, nil, err
			}
			pts = append(pts, p)
		}
		if err := s.Write(pts); err != nil {
			cleanup()
			return nil, nil, fmt.Errorf("write: %w", err)
		}
		for i, id := range s.ShardIDs() {
			if b.Snapshot[i%len(b.Snapshot)] {
				if err := s.SnapshotShard(id); err != nil {
					cleanup()
					return nil, nil, fmt.Errorf("snapshot: %w", err)
				}
			}
		}
		if b.Compact {
			for _, id := range s.ShardIDs() {
				if _, err := s.CompactShard(id, "forcefull"); err != nil {
					cleanup()
					return nil, nil, fmt.Errorf("compact: %w", err)
				}
			}
		}
		if b.Reopen {
			if err := s.Reopen(); err != nil {
				cleanup()
				return nil, nil, fmt.Errorf("reopen: %w", err)
			}
		}
	}
	return s, cleanup, nil
}

func toGot(rows []*models.Row) ([]refql.GotSeries, error) {
	var out []refql.GotSeries
	for _, r := range rows {
		if r.Name != measurement {
			return nil, fmt.Errorf("series of measurement %q returned", r.Name)
		}
		g := refql.GotSeries{Tags: r.Tags, Columns: r.Columns}
		for _, v := range r.Values {
			tm, ok := v[0].(time.Time)
			if !ok {
				return nil, fmt.Errorf("time column holds %T", v[0])
			}
			g.Rows = append(g.Rows, refql.GotRow{T: tm.UnixNano(), Vals: v[1:]})
		}
		out = append(out, g)
	}
	return out, nil
}

func fmtRows(rows []*models.Row) string {
	var sb strings.Builder
	for _, r := range rows {
		fmt.Fprintf(&sb, "series %v %v:", r.Tags, r.Columns)
		for i, v := range r.Values {
			if i >= 12 {
				fmt.Fprintf(&sb, " …(%d rows)", len(r.Values))
				break
			}
			fmt.Fprintf(&sb, " [%d", v[0].(time.Time).UnixNano()-baseTime)
			for _, x := range v[1:] {
				fmt.Fprintf(&sb, " %v", x)
			}
			sb.WriteString("]")
		}
		sb.WriteString("; ")
	}
	return sb.String()
}

func fmtExpected(r *refql.Result) string {
	var sb strings.Builder
	for _, s := range r.Expected(false) {
		fmt.Fprintf(&sb, "series %v:", s.Tags)
		for i, sl := range s.Slots {
			if i >= 12 {
				fmt.Fprintf(&sb, " …(%d slots)", len(s.Slots))
				break
			}
			var alts []string
			for _, a := range sl.Alts {
				var cs []string
				for _, c := range a.Cells {
					switch {
					case c.Null:
						cs = append(cs, "null")
					case c.OrNull:
						cs = append(cs, c.V.String()+"-or-null")
					case c.Ranged:
						cs = append(cs, fmt.Sprintf("%d..%d", c.Lo, c.Hi))
					case c.Any:
						cs = append(cs, "any")
					default:
						cs = append(cs, c.V.String())
					}
				}
				alts = append(alts, fmt.Sprintf("%d %s", a.T-baseTime, strings.Join(cs, " ")))
			}
			fmt.Fprintf(&sb, " [%s]", strings.Join(alts, " | "))
		}
		sb.WriteString("; ")
	}
	return sb.String() + fmt.Sprintf(" (before LIMIT %d OFFSET %d)", r.Q.Limit, r.Q.RowOffset)
}

// slimitAtRisk reports whether the engine's per-shard application of SLIMIT/SOFFSET (known
// finding slimit-per-shard-tagsets) can change the answer: it cannot when every shard the query
// reads lists, for the series that can match the tag part of the condition, exactly the tag sets
// of the expected result, and every such series carries all dimension tags (the per-shard order,
// which compares "key|key|value|value" strings, is then the order of the values).
func slimitAtRisk(ds *dataset, d *refql.Data, q *refql.Query, res *refql.Result) bool {
	dims := q.Dims(d)
	want := map[string]bool{}
	for _, s := range res.Series {
		want[refql.GroupKey(dims, s.Tags)] = true
	}
	lo, hi, hasLo, hasHi := q.TimeRange()
	for sh, series := range ds.shardSeries(measurement) {
		if hasLo && (sh+1)*hour <= lo {
			continue
		}
		if hasHi && sh*hour > hi {
			continue
		}
		have := map[string]bool{}
		for si := range series {
			tags := ds.Series[si]
			if !refql.PossiblyMatches(q.Cond, tags) {
				continue
			}
			for _, k := range dims {
				if tags[k] == "" {
					return true
				}
			}
			have[refql.GroupKey(dims, tags)] = true
		}
		if len(have) == 0 {
			continue
		}
		if !reflect.DeepEqual(have, want) {
			return true
		}
	}
	return false
}

// offsetAtRisk: OFFSET n without LIMIT makes each shard stop after n+1 rows of an output series
// (known finding offset-without-limit-truncates-shard); the answer can only change when some
// shard holds more than n+1 rows of one output series.
func offsetAtRisk(q *refql.Query, res *refql.Result) bool {
	for _, s := range res.Series {
		perShard := map[int64]int{}
		for _, sl := range s.Slots {
			perShard[shardOf(sl.Alts[0].T)]++
		}
		for _, n := range perShard {
			if n > q.RowOffset+1 {
				return true
			}
		}
	}
	return false
}

func datasetCanon(ds *dataset) string {
	var sb strings.Builder
	for _, b := range ds.Batches {
		for _, w := range b.Writes {
			keys := make([]string, 0, len(w.Fields))
			for k := range w.Fields {
				keys = append(keys, k)
			}
			sort.Strings(keys)
			fmt.Fprintf(&sb, "%s,%v@%d", w.Meas, ds.Series[w.Series], w.T)
			for _, k := range keys {
				fmt.Fprintf(&sb, " %s=%s", k, w.Fields[k])
			}
			sb.WriteByte(';')
		}
		fmt.Fprintf(&sb, "|%v%v%v|", b.Snapshot, b.Compact, b.Reopen)
	}
	return sb.String()
}

type caseReport struct {
	Query    string   `json:"query"`
	Dataset  []string `json:"dataset_line_protocol_by_batch"`
	Layout   []string `json:"after_batch"`
	Expected string   `json:"expected"`
	Got      string   `json:"got"`
}

func report(ds *dataset, q *refql.Query, exp, got string) caseReport {
	c := caseReport{Query: q.String(), Expected: exp, Got: got}
	for _, b := range ds.Batches {
		var lines []string
		for _, w := range b.Writes {
			p, err := toModelsPoint(ds, w)
			if err == nil {
				lines = append(lines, p.String())
			}
		}
		c.Dataset = append(c.Dataset, strings.Join(lines, "\n"))
		c.Layout = append(c.Layout, fmt.Sprintf("snapshot=%v compact=%v reopen=%v", b.Snapshot, b.Compact, b.Reopen))
	}
	return c
}

const queriesPerDataset = 8

func TestPropSelect(t *testing.T) {
	rec.Assume("a series without a tag behaves in WHERE and GROUP BY as if the tag value were the empty string (InfluxDB FAQ)")
	rec.Assume("a comparison with a field the point does not have is false, for every operator including != and !~")
	rec.Assume("series are matched by tag set, not by position; with SLIMIT/SOFFSET the window is taken over series in ascending order of their GROUP BY tag values (also accepted: descending order under ORDER BY time DESC)")
	rec.Assume("rows of one output series with equal timestamps (merged input series) may come in any order; LIMIT/OFFSET may cut such a run anywhere")
	rec.Assume("MIN()/MAX() ties (the extreme value occurs more than once in the group or interval): the tied point with the earliest timestamp is the selected one (its time and tag columns are returned), independently of ORDER BY and of the order in which shards and series are read - the rule the documentation gives for TOP()/BOTTOM(), of which MAX()/MIN() are the N=1 case, and the one influxql/query's Min/Max reducers state; tied points that also share that timestamp (different series), and points with equal timestamps for FIRST()/LAST(), may be resolved to any of them")
	rec.Assume("floats produced by sum/mean/fill(linear) are compared with relative tolerance 1e-9; integer fill(linear) may round either way")
	rec.Assume("not generated (classes dropped:*): selector with tag columns under fill(value|previous|linear); fill(value|linear) for string/boolean results; OFFSET together with SLIMIT/SOFFSET; conditions on a field that no shard in the queried range knows (the engine then treats the name like a missing tag, i.e. '', which the documentation does not cover); several calls of which one is on a field that no shard in the queried range knows; the same call twice in one statement; calls mixed with fields or tags when there are several calls; min/max of strings and booleans")
	rec.Assume("several calls in one statement: every call is evaluated on its own over the points that have its field and the rows are joined on time; a selector then reports the interval start (lower bound of the range / epoch 0 without GROUP BY time) instead of the time of its point; under fill(none) an interval is reported when at least one call has data in it; where only another call has a row a call shows null (the number under fill(<number>); COUNT(): 0 or null, both accepted); LIMIT/OFFSET count joined rows; a function occurring twice is told apart by aliases")
	rec.Assume("the reference evaluator verifharness/internal/refql, validated on the documentation's examples (refql_test.go)")
	rec.Check(t, 350, 3000, func(t *rapid.T) {
		ds := drawDataset(t)
		d := ds.model(measurement)
		s, cleanup, err := load(ds)
		if err != nil {
			// the fixture could not be built (I/O error, stall): nothing was decided about the property
			rec.Inconclusive(fmt.Sprintf("fixture: %v", err))
			t.Skip("fixture: " + err.Error())
		}
		defer cleanup()
		multiShard := len(ds.shardSeries(measurement)) >= 2
		dsCanon := datasetCanon(ds)
		if multiShard {
			rec.Class("dataset:multi-shard")
		} else {
			rec.Class("dataset:single-shard")
		}
		nq := queriesPerDataset
		if ev.Thorough() {
			nq = 12
		}
		for qi := 0; qi < nq; qi++ {
			q := drawQuery(t, ds, d)
			text := q.String()
			res, err := refql.Eval(d, q)
			if err != nil {
				// the generator produced a query outside the reference's subset: generator bug
				t.Fatalf("reference cannot evaluate generated query %s: %v", text, err)
			}
			rec.Eval()
			for _, c := range classOf(q) {
				rec.Class(c)
			}
			if len(q.Calls()) > 1 {
				// how far the per-call row streams of the statement differ (they are joined on time by the
				// engine's multi-scanner cursor, which has to pick the next row among unequal heads)
				if res.AbsentCalls > 0 {
					rec.Class("multi-call:series-without-points-for-one-call")
				}
				if res.Misaligned > 0 {
					rec.Class("multi-call:misaligned-calls")
					if q.Desc {
						rec.Class("multi-call:misaligned-calls:order-desc")
					} else {
						rec.Class("multi-call:misaligned-calls:order-asc")
					}
				}
			}
			if res.MinMaxTies > 0 {
				// the extreme value of a MIN()/MAX() occurs more than once; "decided": the tied points differ
				// in what the row shows (time of the point, tag columns), so the earliest-point rule is asserted
				rec.Class("minmax-tie")
				if res.MinMaxTiesDecided > 0 {
					rec.Class("minmax-tie:decided-by-earliest-time")
					rec.Class("minmax-tie:decided:" + q.Proj[0].Func)
					if q.Desc {
						rec.Class("minmax-tie:decided:order-desc")
					}
					if res.MinMaxTiesAcrossSeries > 0 {
						rec.Class("minmax-tie:decided:across-merged-series")
					}
					if q.Interval > 0 {
						rec.Class("minmax-tie:decided:groupby-time-tag-columns")
					}
				}
			}
			rows, qerr := runQuery(s, text)
			if qerr != nil {
				failCase(t, "query-error", fmt.Sprintf("%s: %v", text, qerr), report(ds, q, fmtExpected(res), qerr.Error()))
			}
			got, cerr := toGot(rows)
			if cerr == nil {
				cerr = res.Check(got)
			}
			nonEmpty := res.Rows() > 0
			if nonEmpty {
				rec.Class("result:non-empty")
			} else {
				rec.Class("result:empty")
				switch {
				case len(res.Series) > 0:
					rec.Class("result:empty:by-offset-or-soffset")
				case q.Cond != nil:
					q2 := *q
					q2.Cond = nil
					if r2, _ := refql.Eval(d, &q2); r2 != nil && len(r2.Series) > 0 {
						rec.Class("result:empty:by-condition")
					} else {
						rec.Class("result:empty:by-time-range-or-field")
					}
				default:
					rec.Class("result:empty:by-time-range-or-field")
				}
			}
			if multiShard && nonEmpty && ((q.Interval > 0 && q.Fill != refql.FillNone) || q.Limit > 0 || q.RowOffset > 0) {
				rec.NonTrivial(dsCanon + "\x00" + text)
			}
			if rec.WantSample() && nonEmpty && qi == 3 {
				rec.Sample(map[string]any{"query": text, "expected": fmtExpected(res), "got": fmtRows(rows)})
			}
			if cerr == nil {
				if q.SLimit > 0 || q.SOffset > 0 {
					rec.Class("slimit-soffset:asserted")
				}
				continue
			}
			// a mismatch: a known finding (exactly its signature) or a violation
			if key := explainMismatch(t, s, ds, d, q, res, rows, got, cerr); key != "" {
				rec.ExcludedKnown(key)
			}
		}
	})
}

// verify runs q and compares the rows with the reference. It returns "" when they agree, the key
// of the known finding whose signature explains the mismatch otherwise; every other mismatch
// is reported as a violation.
func verify(t *rapid.T, s *fix.Stack, ds *dataset, d *refql.Data, q *refql.Query) string {
	res, err := refql.Eval(d, q)
	if err != nil {
		t.Fatalf("reference cannot evaluate %s: %v", q.String(), err)
	}
	rows, qerr := runQuery(s, q.String())
	if qerr != nil {
		failCase(t, "query-error", fmt.Sprintf("%s: %v", q.String(), qerr), report(ds, q, fmtExpected(res), qerr.Error()))
	}
	got, cerr := toGot(rows)
	if cerr == nil {
		cerr = res.Check(got)
	}
	if cerr == nil {
		return ""
	}
	return explainMismatch(t, s, ds, d, q, res, rows, got, cerr)
}

// explainMismatch decides about a result that differs from the reference (cerr): the signatures
// of the open known findings are excluded, exactly; the rest of such a statement (the same
// statement without the clause the finding is about) must still be right.
func explainMismatch(t *rapid.T, s *fix.Stack, ds *dataset, d *refql.Data, q *refql.Query, res *refql.Result, rows []*models.Row, got []refql.GotSeries, cerr error) string {
	if q.SLimit == 0 && q.SOffset > 0 && len(got) == 0 && ev.KnownOpen("C22", keySOffset) {
		return keySOffset
	}
	if (q.SLimit > 0 || q.SOffset > 0) && ev.KnownOpen("C22", keySLimit) && slimitAtRisk(ds, d, q, res) {
		q2 := *q
		q2.SLimit, q2.SOffset = 0, 0
		verify(t, s, ds, d, &q2)
		return keySLimit
	}
	if !q.IsCall() && q.Limit == 0 && q.RowOffset > 0 && ev.KnownOpen("C22", keyOffset) && offsetAtRisk(q, res) {
		return keyOffset
	}
	if len(q.Calls()) > 1 && (q.Limit > 0 || q.RowOffset > 0) && res.Misaligned > 0 && ev.KnownOpen("C22", keyLimitPerCall) {
		// signature: LIMIT/OFFSET in a statement whose calls report different intervals (fill(none)):
		// the engine cuts every call's rows on its own before joining them
		q2 := *q
		q2.Limit, q2.RowOffset = 0, 0
		verify(t, s, ds, d, &q2)
		return keyLimitPerCall
	}
	if q.Desc && q.Fill == refql.FillPrevious && ev.KnownOpen("C22", keyPrevDesc) {
		// signature: the result equals the one obtained when "previous" follows the output order
		q2 := *q
		q2.PreviousFollowsOutputOrder = true
		res2, _ := refql.Eval(d, &q2)
		if res2 != nil && res2.Check(got) == nil {
			return keyPrevDesc
		}
	}
	failCase(t, mismatchKey(q), fmt.Sprintf("%s: %v", q.String(), cerr), report(ds, q, fmtExpected(res), fmtRows(rows)))
	return ""
}

// failCase logs the full case (so that a replay shows it) and records the violation.
func failCase(t *rapid.T, key, detail string, c caseReport) {
	b, _ := json.MarshalIndent(c, "", " ")
	t.Logf("case: %s", b)
	rec.Fail(t, "TestPropSelect", key, detail, c)
}

// mismatchKey is a short root-cause key: the most specific feature of the failing query.
func mismatchKey(q *refql.Query) string {
	switch {
	case q.SLimit > 0 || q.SOffset > 0:
		return "mismatch-slimit"
	case len(q.Calls()) > 1:
		if q.Interval > 0 {
			return "mismatch-multi-call-fill-" + q.Fill.String()
		}
		return "mismatch-multi-call"
	case q.Interval > 0 && q.Fill != refql.FillDefault:
		return "mismatch-fill-" + q.Fill.String()
	case q.Interval > 0:
		return "mismatch-groupby-time"
	case q.IsCall():
		return "mismatch-call"
	case q.Limit > 0 || q.RowOffset > 0:
		return "mismatch-limit"
	default:
		return "mismatch-raw"
	}
}
