package c22_influxql

import (
	"fmt"
	"os"
	"strings"
	"testing"
	"time"

	"github.com/influxdata/influxdb/v2/models"

	"verifharness/internal/fix"
	"verifharness/internal/scratch"
)

// lpStack builds a stack (1 h shard groups) from line-protocol batches.
func lpStack(t testing.TB, batches ...string) (*fix.Stack, func()) {
	t.Helper()
	dir, err := scratch.Dir("c22")
	if err != nil {
		t.Fatal(err)
	}
	s, err := newStack(dir)
	if err != nil {
		os.RemoveAll(dir)
		rec.Inconclusive(fmt.Sprintf("fixture: %v", err))
		t.Skip(err)
	}
	cleanup := func() { s.Close(); os.RemoveAll(dir) }
	for _, b := range batches {
		pts, err := models.ParsePointsString(b)
		if err == nil {
			err = s.Write(pts)
		}
		if err != nil {
			cleanup()
			rec.Inconclusive(fmt.Sprintf("fixture: %v", err))
			t.Skip(err)
		}
	}
	return s, cleanup
}

// rowsOf runs a query and renders the result as "tags: t=v t=v; …" (times relative to baseTime, in seconds).
func rowsOf(t testing.TB, s *fix.Stack, q string) string {
	t.Helper()
	rows, err := runQuery(s, q)
	if err != nil {
		rec.Inconclusive(fmt.Sprintf("known-finding reproducer: %s: %v", q, err))
		t.Skip(err)
	}
	var out []string
	for _, r := range rows {
		var vs []string
		for _, v := range r.Values {
			vs = append(vs, fmt.Sprintf("%ds=%v", (v[0].(time.Time).UnixNano()-baseTime)/1e9, v[1]))
		}
		out = append(out, fmt.Sprintf("%v: %s", r.Tags, strings.Join(vs, " ")))
	}
	return strings.Join(out, "; ")
}

// two shards (hour 0 and hour 1); series a lives only in hour 0, series c only in hour 1, b in both
const twoShardLP = `m,t1=a f=1 1609459200000000000
m,t1=a f=2 1609459800000000000
m,t1=b f=10 1609459200000000000
m,t1=b f=20 1609462860000000000
m,t1=c f=-1 1609462860000000000`

// SLIMIT/SOFFSET are applied by every shard to its own list of tag sets
// (tsm1.Engine.createVarRefIterator / createTagSetIterators → query.LimitTagSets) instead of to
// the series of the merged result.
func TestKnown_slimit_per_shard_tagsets(t *testing.T) {
	s, cleanup := lpStack(t, twoShardLP)
	defer cleanup()
	all := rowsOf(t, s, `SELECT f FROM m GROUP BY t1`)
	q := `SELECT f FROM m GROUP BY t1 SLIMIT 1 SOFFSET 1`
	got := rowsOf(t, s, q)
	want := "map[t1:b]: 0s=10 3660s=20"
	if all != "map[t1:a]: 0s=1 600s=2; map[t1:b]: 0s=10 3660s=20; map[t1:c]: 3660s=-1" {
		t.Fatalf("unexpected base result %s", all)
	}
	rec.Known(t, "TestKnown_slimit_per_shard_tagsets", keySLimit, got != want,
		fmt.Sprintf("series a only in shard 1, c only in shard 2, b in both; %s returns {%s}, want the second series {%s}: each shard applies SLIMIT/SOFFSET to its own tag sets (shard 1: [a b]→b, shard 2: [b c]→c)", q, got, want),
		map[string]any{"line_protocol": twoShardLP, "query": q, "got": got, "want": want})
}

// SOFFSET without SLIMIT: query.LimitTagSets returns a[soffset:soffset+0].
func TestKnown_soffset_without_slimit_empty(t *testing.T) {
	s, cleanup := lpStack(t, twoShardLP)
	defer cleanup()
	q := `SELECT f FROM m WHERE time < '2021-01-01T01:00:00Z' GROUP BY t1 SOFFSET 1`
	got := rowsOf(t, s, q)
	want := "map[t1:b]: 0s=10"
	rec.Known(t, "TestKnown_soffset_without_slimit_empty", keySOffset, got != want,
		fmt.Sprintf("one shard with series a and b; %s returns {%s}, want {%s} (SOFFSET 1 skips one series; with SLIMIT 5 SOFFSET 1 the engine returns it)", q, got, want),
		map[string]any{"line_protocol": twoShardLP, "query": q, "got": got, "want": want})
}

// OFFSET n without LIMIT: the per-shard limit iterator of tsm1 stops after n+1 points because
// (itr.n - Offset) > Limit holds with Limit == 0.
func TestKnown_offset_without_limit_truncates_shard(t *testing.T) {
	lp := `m f=1 1609459200000000000
m f=2 1609459260000000000
m f=3 1609459320000000000
m f=4 1609459380000000000`
	s, cleanup := lpStack(t, lp)
	defer cleanup()
	q := `SELECT f FROM m OFFSET 1`
	got := rowsOf(t, s, q)
	want := "map[]: 60s=2 120s=3 180s=4"
	withLimit := rowsOf(t, s, `SELECT f FROM m LIMIT 100 OFFSET 1`)
	if withLimit != want {
		t.Fatalf("LIMIT 100 OFFSET 1 returns %s", withLimit)
	}
	rec.Known(t, "TestKnown_offset_without_limit_truncates_shard", keyOffset, got != want,
		fmt.Sprintf("four points in one shard; %s returns {%s}, want {%s} (LIMIT 100 OFFSET 1 returns them)", q, got, want),
		map[string]any{"line_protocol": lp, "query": q, "got": got, "want": want})
}

// fill(previous) with ORDER BY time DESC fills an empty interval with the value of the LATER
// interval (the previously emitted row), so ORDER BY changes values, not only the order.
func TestKnown_fill_previous_desc_uses_later_bucket(t *testing.T) {
	lp := `m f=1 1609459200000000000
m f=3 1609460400000000000`
	s, cleanup := lpStack(t, lp)
	defer cleanup()
	w := ` WHERE time >= '2021-01-01T00:00:00Z' AND time < '2021-01-01T00:40:00Z' GROUP BY time(10m) fill(previous)`
	asc := rowsOf(t, s, `SELECT sum(f) FROM m`+w)
	q := `SELECT sum(f) FROM m` + w + ` ORDER BY time DESC`
	got := rowsOf(t, s, q)
	want := "map[]: 1800s=3 1200s=3 600s=1 0s=1"
	if asc != "map[]: 0s=1 600s=1 1200s=3 1800s=3" {
		t.Fatalf("ascending result %s", asc)
	}
	rec.Known(t, "TestKnown_fill_previous_desc_uses_later_bucket", keyPrevDesc, got != want,
		fmt.Sprintf("values at 0m and 20m; ascending: {%s}; %s returns {%s}, want the same rows newest first {%s}", asc, q, got, want),
		map[string]any{"line_protocol": lp, "query": q, "got": got, "want": want})
}

// LIMIT/OFFSET in a statement with several calls are applied to every call's rows separately
// (query.buildFieldIterator wraps each call iterator in a limit iterator) before the rows are
// joined on time by the multi-scanner cursor: when the calls report different intervals
// (fill(none), fields with different coverage) the joined series has more than LIMIT rows.
func TestKnown_limit_offset_per_call_in_multi_call_statement(t *testing.T) {
	lp := `m a=1,b=10 1609459200000000000
m b=20 1609459800000000000
m a=3 1609460400000000000`
	s, cleanup := lpStack(t, lp)
	defer cleanup()
	render := func(q string) string {
		rows, err := runQuery(s, q)
		if err != nil {
			rec.Inconclusive(fmt.Sprintf("known-finding reproducer: %s: %v", q, err))
			t.Skip(err)
		}
		var out []string
		for _, r := range rows {
			for _, v := range r.Values {
				out = append(out, fmt.Sprintf("%ds=%v,%v", (v[0].(time.Time).UnixNano()-baseTime)/1e9, v[1], v[2]))
			}
		}
		return strings.Join(out, " ")
	}
	w := ` WHERE time >= '2021-01-01T00:00:00Z' AND time < '2021-01-01T00:30:00Z' GROUP BY time(10m) fill(none)`
	all := render(`SELECT min(a), max(b) FROM m` + w)
	if all != "0s=1,10 600s=<nil>,20 1200s=3,<nil>" {
		t.Fatalf("unexpected result without LIMIT: %s", all)
	}
	q := `SELECT min(a), max(b) FROM m` + w + ` LIMIT 2`
	got := render(q)
	want := "0s=1,10 600s=<nil>,20"
	rec.Known(t, "TestKnown_limit_offset_per_call_in_multi_call_statement", keyLimitPerCall, got != want,
		fmt.Sprintf("one series, a at 0m and 20m, b at 0m and 10m; without LIMIT: {%s}; %s returns {%s}, want the first two rows {%s}: each call keeps its own first two intervals", all, q, got, want),
		map[string]any{"line_protocol": lp, "query": q, "got": got, "want": want})
}
