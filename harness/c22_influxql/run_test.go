package c22_influxql

import (
	"context"
	"fmt"
	"time"

	"github.com/influxdata/influxdb/v2"
	"github.com/influxdata/influxdb/v2/influxql/query"
	"github.com/influxdata/influxdb/v2/models"
	_ "github.com/influxdata/influxdb/v2/tsdb/engine/tsm1"
	_ "github.com/influxdata/influxdb/v2/tsdb/index/tsi1"
	"github.com/influxdata/influxdb/v2/v1/coordinator"
	"github.com/influxdata/influxql"

	"verifharness/internal/fix"
)

// fakeDBRP maps every (db, rp) of the organisation to the stack's single bucket, the way a
// virtual DBRP mapping does in production.
type fakeDBRP struct {
	influxdb.DBRPMappingService
	s *fix.Stack
}

func (d fakeDBRP) FindMany(ctx context.Context, f influxdb.DBRPMappingFilter, opts ...influxdb.FindOptions) ([]*influxdb.DBRPMapping, int, error) {
	return []*influxdb.DBRPMapping{{ID: 1, Database: "db", RetentionPolicy: "autogen", Default: true, OrganizationID: d.s.Org, BucketID: d.s.Bucket}}, 1, nil
}

// fixedNow is the value of now() for every query (no generated query uses now(), but the
// compiler wants one).
var fixedNow = time.Date(2030, 1, 1, 0, 0, 0, 0, time.UTC)

// runQuery parses text with the real parser and runs it the way
// coordinator.StatementExecutor.executeSelectStatement does (Compile → Prepare with the local
// shard mapper → Select → Emitter), returning the emitted rows in order.
func runQuery(s *fix.Stack, text string) ([]*models.Row, error) {
	stmt, err := influxql.ParseStatement(text)
	if err != nil {
		return nil, fmt.Errorf("parse: %w", err)
	}
	sel, ok := stmt.(*influxql.SelectStatement)
	if !ok {
		return nil, fmt.Errorf("not a select: %T", stmt)
	}
	// StatementExecutor.NormalizeStatement: default database / retention policy.
	for _, src := range sel.Sources {
		if m, ok := src.(*influxql.Measurement); ok {
			m.Database, m.RetentionPolicy = "db", "autogen"
		}
	}
	ctx := context.Background()
	c, err := query.Compile(sel, query.CompileOptions{Now: fixedNow})
	if err != nil {
		return nil, fmt.Errorf("compile: %w", err)
	}
	mapper := &coordinator.LocalShardMapper{MetaClient: s.Meta, TSDBStore: s.Store, DBRP: fakeDBRP{s: s}}
	p, err := c.Prepare(ctx, mapper, query.SelectOptions{OrgID: s.Org})
	if err != nil {
		return nil, fmt.Errorf("prepare: %w", err)
	}
	defer p.Close()
	cur, err := p.Select(ctx)
	if err != nil {
		return nil, fmt.Errorf("select: %w", err)
	}
	em := query.NewEmitter(cur, 0)
	defer em.Close()
	var rows []*models.Row
	for {
		row, _, err := em.Emit()
		if err != nil {
			return rows, fmt.Errorf("emit: %w", err)
		}
		if row == nil {
			return rows, nil
		}
		rows = append(rows, row)
	}
}
