package c22_influxql

import (
	"fmt"
	"sort"
	"strings"
	"time"

	"pgregory.net/rapid"

	"verifharness/internal/refql"
)

const (
	measurement = "m"
	decoy       = "other" // a second measurement with the same tags and fields; must never show up
	hour        = int64(time.Hour)
	minute      = int64(time.Minute)
)

var baseTime = time.Date(2021, 1, 1, 0, 0, 0, 0, time.UTC).UnixNano()

// fieldKinds fixes the type of every field name.
var fieldKinds = map[string]refql.Kind{
	"f": refql.Float, "g": refql.Float, "i": refql.Integer, "u": refql.Unsigned, "s": refql.String, "b": refql.Boolean,
}
var fieldNames = []string{"f", "g", "i", "u", "s", "b"}
var stringVals = []string{"", "a", "ab", "x y", "it's", `q"\`}

type write struct {
	Meas   string
	Series int
	T      int64
	Fields map[string]refql.Value
}

type batch struct {
	Writes   []write
	Snapshot []bool // per hour slot: snapshot the shard holding that hour after the batch
	Compact  bool
	Reopen   bool
}

type dataset struct {
	Hours   int // data spans [base, base+Hours*1h)
	Uniform bool
	Series  []map[string]string
	Palette []int64
	Batches []batch
}

// roll draws an integer in [0, n) with a flat distribution: rapid's integer generators favour
// small values, which would skew every probability decision below; hashing a full-width draw
// removes that (shrinking still works: it drives the draw, hence the choice, to a fixed point).
func roll(t *rapid.T, n int, label string) int {
	x := rapid.Uint64().Draw(t, label)
	x += 0x9e3779b97f4a7c15
	x = (x ^ (x >> 30)) * 0xbf58476d1ce4e5b9
	x = (x ^ (x >> 27)) * 0x94d049bb133111eb
	x ^= x >> 31
	return int(x % uint64(n))
}

func pick[T any](t *rapid.T, xs []T, label string) T { return xs[roll(t, len(xs), label)] }

func drawValue(t *rapid.T, k refql.Kind, label string) refql.Value {
	switch k {
	case refql.Float:
		return refql.Value{K: k, F: float64(rapid.IntRange(-40, 40).Draw(t, label)) / 4}
	case refql.Integer:
		return refql.Value{K: k, I: int64(rapid.IntRange(-6, 6).Draw(t, label))}
	case refql.Unsigned:
		return refql.Value{K: k, U: uint64(rapid.IntRange(0, 9).Draw(t, label))}
	case refql.String:
		return refql.Value{K: k, S: rapid.SampledFrom(stringVals).Draw(t, label)}
	default:
		return refql.Value{K: k, B: rapid.Bool().Draw(t, label)}
	}
}

func drawDataset(t *rapid.T) *dataset {
	ds := &dataset{}
	ds.Hours = pick(t, []int{1, 2, 2, 3, 3, 3}, "hours")
	ds.Uniform = roll(t, 10, "uniform") < 4
	// series: distinct tag sets over t1 ∈ {a,b,c}, t2 ∈ {x,y,absent}
	nSeries := rapid.IntRange(1, 5).Draw(t, "nSeries")
	seen := map[string]bool{}
	for len(ds.Series) < nSeries {
		tags := map[string]string{"t1": pick(t, []string{"a", "b", "c"}, "t1")}
		t2 := pick(t, []string{"x", "y", ""}, "t2")
		if ds.Uniform && t2 == "" {
			t2 = "x"
		}
		if t2 != "" {
			tags["t2"] = t2
		}
		k := fmt.Sprint(tags)
		if seen[k] {
			if len(seen) >= 6 {
				break
			}
			continue
		}
		seen[k] = true
		ds.Series = append(ds.Series, tags)
	}
	// the fields each series uses
	seriesFields := make([][]string, len(ds.Series))
	for i := range ds.Series {
		n := rapid.IntRange(1, 4).Draw(t, "nFields")
		perm := rapid.Permutation(fieldNames).Draw(t, "fields")
		seriesFields[i] = perm[:n]
		if ds.Uniform && !contains(seriesFields[i], "f") {
			seriesFields[i] = append(seriesFields[i], "f")
		}
	}
	// a palette of timestamps: minutes on a grid, some with a nanosecond of jitter, so that series
	// share timestamps, points sit on bucket and shard boundaries and overwrites happen
	nPal := rapid.IntRange(3, 14).Draw(t, "nPalette")
	for len(ds.Palette) < nPal {
		m := int64(rapid.IntRange(0, ds.Hours*60-1).Draw(t, "minute"))
		if roll(t, 4, "round") == 0 {
			m = m / 10 * 10
		}
		ts := baseTime + m*minute
		switch roll(t, 10, "jitter") {
		case 0:
			ts++
		case 1:
			ts--
		case 2:
			ts += int64(rapid.IntRange(1, 59_999).Draw(t, "ms")) * int64(time.Millisecond)
		}
		ds.Palette = append(ds.Palette, ts)
	}
	// values: about half of the numeric values repeat one that the field already has somewhere in
	// the data set (any earlier one, or the largest / smallest so far), so that the extreme value of
	// a field often occurs more than once - at different times, in different series, shards and files
	// (MIN()/MAX() then have to pick among tied points)
	drawn := map[string][]refql.Value{}
	fieldValue := func(f string) refql.Value {
		k := fieldKinds[f]
		prev := drawn[f]
		v := refql.Value{}
		mode := roll(t, 10, "valMode") // 0: any earlier value, 1-2: the largest, 3-4: the smallest, 5-9: a fresh one
		if len(prev) == 0 || !(k == refql.Float || k == refql.Integer || k == refql.Unsigned) || mode > 4 {
			v = drawValue(t, k, "val")
		} else {
			v = prev[roll(t, len(prev), "echo")]
			for _, x := range prev {
				if ((mode == 1 || mode == 2) && refql.CompareValues(x, v) > 0) || ((mode == 3 || mode == 4) && refql.CompareValues(x, v) < 0) {
					v = x
				}
			}
		}
		drawn[f] = append(drawn[f], v)
		return v
	}
	nBatches := rapid.IntRange(1, 4).Draw(t, "nBatches")
	for b := 0; b < nBatches; b++ {
		var bt batch
		n := rapid.IntRange(4, 22).Draw(t, "nWrites")
		for w := 0; w < n; w++ {
			si := rapid.IntRange(0, len(ds.Series)-1).Draw(t, "series")
			wr := write{Meas: measurement, Series: si, T: pick(t, ds.Palette, "ts"), Fields: map[string]refql.Value{}}
			if roll(t, 12, "decoy") == 0 {
				wr.Meas = decoy
			}
			fs := seriesFields[si]
			mask := rapid.IntRange(1, 1<<len(fs)-1).Draw(t, "fieldMask")
			for j, f := range fs {
				if mask&(1<<j) != 0 {
					wr.Fields[f] = fieldValue(f)
				}
			}
			bt.Writes = append(bt.Writes, wr)
		}
		if ds.Uniform && b == 0 {
			// every series has a point with field f in every hour: all shards know the same series
			for si := range ds.Series {
				for h := 0; h < ds.Hours; h++ {
					m := int64(rapid.IntRange(0, 59).Draw(t, "uMinute"))
					bt.Writes = append(bt.Writes, write{Meas: measurement, Series: si, T: baseTime + int64(h)*hour + m*minute,
						Fields: map[string]refql.Value{"f": fieldValue("f")}})
				}
			}
		}
		bt.Snapshot = make([]bool, ds.Hours+1)
		for h := range bt.Snapshot {
			bt.Snapshot[h] = rapid.Bool().Draw(t, "snapshot")
		}
		bt.Compact = roll(t, 10, "compact") == 0
		bt.Reopen = roll(t, 15, "reopen") == 0
		ds.Batches = append(ds.Batches, bt)
	}
	return ds
}

func contains(a []string, s string) bool {
	for _, x := range a {
		if x == s {
			return true
		}
	}
	return false
}

// model returns the content of the measurement after all batches: per (series, timestamp) the
// fields, a later write of a field replacing an earlier one.
func (ds *dataset) model(meas string) *refql.Data {
	type key struct {
		s int
		t int64
	}
	pts := map[key]map[string]refql.Value{}
	for _, b := range ds.Batches {
		for _, w := range b.Writes {
			if w.Meas != meas {
				continue
			}
			k := key{w.Series, w.T}
			if pts[k] == nil {
				pts[k] = map[string]refql.Value{}
			}
			for f, v := range w.Fields {
				pts[k][f] = v
			}
		}
	}
	keys := make([]key, 0, len(pts))
	for k := range pts {
		keys = append(keys, k)
	}
	sort.Slice(keys, func(i, j int) bool {
		if keys[i].t != keys[j].t {
			return keys[i].t < keys[j].t
		}
		return keys[i].s < keys[j].s
	})
	d := &refql.Data{}
	for _, k := range keys {
		d.Points = append(d.Points, refql.Point{Tags: ds.Series[k.s], T: k.t, Fields: pts[k]})
	}
	return d
}

// shardOf is the shard group (hour slot) a timestamp belongs to.
func shardOf(t int64) int64 {
	q := t / hour
	if t%hour < 0 {
		q--
	}
	return q
}

// shardSeries lists, per shard group, the series of the measurement that were ever written there.
func (ds *dataset) shardSeries(meas string) map[int64]map[int]bool {
	out := map[int64]map[int]bool{}
	for _, b := range ds.Batches {
		for _, w := range b.Writes {
			if w.Meas != meas {
				continue
			}
			s := shardOf(w.T)
			if out[s] == nil {
				out[s] = map[int]bool{}
			}
			out[s][w.Series] = true
		}
	}
	return out
}

// fieldsKnownIn lists the fields of the measurement that exist in at least one shard group
// overlapping the queried range. An identifier that no mapped shard knows as a field is not a
// field for the engine (it is treated like a missing tag, i.e. the empty string): what a
// comparison with it means is not documented, so conditions only use fields known in the range.
func (ds *dataset) fieldsKnownIn(meas string, q *refql.Query) map[string]bool {
	lo, hi, hasLo, hasHi := q.TimeRange()
	known := map[string]bool{}
	for _, b := range ds.Batches {
		for _, w := range b.Writes {
			if w.Meas != meas {
				continue
			}
			sh := shardOf(w.T)
			if (hasLo && (sh+1)*hour <= lo) || (hasHi && sh*hour > hi) {
				continue
			}
			for f := range w.Fields {
				known[f] = true
			}
		}
	}
	return known
}

// ---------------------------------------------------------------------------------------------
// queries

type fieldUse struct {
	name string
	kind refql.Kind
}

func (ds *dataset) usedFields(d *refql.Data) []fieldUse {
	seen := map[string]bool{}
	for _, p := range d.Points {
		for f := range p.Fields {
			seen[f] = true
		}
	}
	var out []fieldUse
	for _, f := range fieldNames {
		if seen[f] {
			out = append(out, fieldUse{f, fieldKinds[f]})
		}
	}
	return out
}

func drawInstant(t *rapid.T, ds *dataset, label string) int64 {
	switch roll(t, 6, label+"Kind") {
	case 0, 1: // exactly a data timestamp (inclusive/exclusive bounds matter)
		return rapid.SampledFrom(ds.Palette).Draw(t, label)
	case 2:
		return rapid.SampledFrom(ds.Palette).Draw(t, label) + int64(rapid.SampledFrom([]int{-1, 1}).Draw(t, label+"Eps"))
	case 3: // a round instant: multiples of 10 minutes, shard boundaries included
		return baseTime + int64(rapid.IntRange(-1, ds.Hours*6+1).Draw(t, label))*10*minute
	default:
		return baseTime + int64(rapid.IntRange(-30, ds.Hours*60+30).Draw(t, label))*minute + int64(rapid.IntRange(0, 59).Draw(t, label+"S"))*int64(time.Second)
	}
}

func drawTagCmp(t *rapid.T) refql.Cond {
	key := pick(t, []string{"t1", "t1", "t1", "t2", "t2", "t2", "t3"}, "tagKey")
	switch roll(t, 6, "tagOp") {
	case 0, 1:
		return refql.TagCmp{Key: key, Op: refql.EQ, Val: drawTagVal(t, key)}
	case 2, 3:
		return refql.TagCmp{Key: key, Op: refql.NEQ, Val: drawTagVal(t, key)}
	case 4:
		return refql.TagCmp{Key: key, Op: refql.EQREGEX, Val: pick(t, []string{"^[ab]$", "a|c", "^$", ".", "x", "^y", "[^x]"}, "re")}
	default:
		return refql.TagCmp{Key: key, Op: refql.NEQREGEX, Val: pick(t, []string{"^[ab]$", "a|c", "^$", ".", "x", "^y"}, "re")}
	}
}

func drawTagVal(t *rapid.T, key string) string {
	if key == "t1" {
		return pick(t, []string{"a", "b", "c", "a", "b", "c", "d", ""}, "tagVal")
	}
	return pick(t, []string{"x", "y", "x", "y", "z", ""}, "tagVal")
}

func drawFieldCmp(t *rapid.T, fields []fieldUse) refql.Cond {
	f := pick(t, fields, "condField")
	ordered := []refql.Op{refql.EQ, refql.NEQ, refql.LT, refql.LTE, refql.GT, refql.GTE, refql.NEQ, refql.LTE, refql.GTE, refql.LT, refql.GT}
	switch f.kind {
	case refql.Float:
		lit := drawValue(t, refql.Float, "lit")
		if rapid.Bool().Draw(t, "intLit") {
			lit = refql.Value{K: refql.Integer, I: int64(rapid.IntRange(-8, 8).Draw(t, "lit"))}
		}
		return refql.FieldCmp{Field: f.name, Op: pick(t, ordered, "op"), Lit: lit}
	case refql.Integer:
		lit := drawValue(t, refql.Integer, "lit")
		if roll(t, 4, "floatLit") == 0 {
			lit = refql.Value{K: refql.Float, F: float64(rapid.IntRange(-12, 12).Draw(t, "lit")) / 2}
		}
		return refql.FieldCmp{Field: f.name, Op: pick(t, ordered, "op"), Lit: lit}
	case refql.Unsigned:
		return refql.FieldCmp{Field: f.name, Op: pick(t, ordered, "op"), Lit: refql.Value{K: refql.Integer, I: int64(rapid.IntRange(0, 9).Draw(t, "lit"))}}
	case refql.String:
		switch roll(t, 4, "strOp") {
		case 0:
			return refql.FieldCmp{Field: f.name, Op: refql.EQREGEX, Regex: pick(t, []string{"a", "^a", "^$", " ", "b$"}, "re")}
		case 1:
			return refql.FieldCmp{Field: f.name, Op: refql.NEQREGEX, Regex: pick(t, []string{"a", "^a", "^$", " ", "b$"}, "re")}
		case 2:
			return refql.FieldCmp{Field: f.name, Op: refql.NEQ, Lit: drawValue(t, refql.String, "lit")}
		default:
			return refql.FieldCmp{Field: f.name, Op: refql.EQ, Lit: drawValue(t, refql.String, "lit")}
		}
	default:
		return refql.FieldCmp{Field: f.name, Op: pick(t, []refql.Op{refql.EQ, refql.NEQ}, "op"), Lit: drawValue(t, refql.Boolean, "lit")}
	}
}

func drawCond(t *rapid.T, fields []fieldUse, depth int) refql.Cond {
	k := pick(t, []int{0, 1, 2, 3, 4, 5, 6, 8, 9, 9}, "condKind")
	if depth >= 2 && k >= 6 {
		k -= 6
	}
	switch {
	case k < 3 || (k < 6 && len(fields) == 0):
		return drawTagCmp(t)
	case k < 6:
		return drawFieldCmp(t, fields)
	case k < 8:
		return refql.And{L: drawCond(t, fields, depth+1), R: drawCond(t, fields, depth+1)}
	default:
		return refql.Or{L: drawCond(t, fields, depth+1), R: drawCond(t, fields, depth+1)}
	}
}

var intervals = []int64{minute, 2 * minute, 5 * minute, 7 * minute, 10 * minute, 12 * minute, 15 * minute, 20 * minute, 30 * minute,
	45 * minute, hour, 90 * minute, 2 * hour, 3 * hour, 61 * int64(time.Second) * 7, 24 * hour}

// classOf names the generator class of a query (for the evidence histogram).
func classOf(q *refql.Query) []string {
	var c []string
	if q.IsCall() {
		for _, p := range q.Proj {
			if p.Kind == refql.ProjCall {
				c = append(c, "call:"+p.Func)
			}
		}
		if q.Interval > 0 {
			c = append(c, "groupby-time", "fill:"+q.Fill.String())
			if q.HasOffset {
				c = append(c, "groupby-time-offset")
			}
		} else {
			c = append(c, "call-without-interval")
		}
		if n := len(q.Calls()); n > 1 {
			c = append(c, "multi-call", fmt.Sprintf("multi-call:%d-calls", n))
			if q.Interval > 0 {
				c = append(c, "multi-call:groupby-time", "multi-call:fill:"+q.Fill.String())
			} else {
				c = append(c, "multi-call:without-interval")
			}
			if q.Desc {
				c = append(c, "multi-call:order-desc")
			}
			if q.Proj[0].Alias != "" {
				c = append(c, "multi-call:aliased")
			}
			if q.Limit > 0 || q.RowOffset > 0 {
				c = append(c, "multi-call:limit-offset")
			}
		} else if len(q.Proj) > 1 {
			c = append(c, "selector+tags")
		}
	} else {
		c = append(c, "raw")
		if len(q.Proj) > 1 {
			c = append(c, "raw-multi-column")
		}
	}
	if q.Cond != nil {
		s := condShape(q.Cond)
		if strings.Contains(s, "T") {
			c = append(c, "where-tag")
		}
		if strings.Contains(s, "F") {
			c = append(c, "where-field")
		}
		if strings.Contains(s, "|") {
			c = append(c, "where-or")
		}
	}
	if len(q.Times) > 0 {
		c = append(c, "where-time")
	}
	if len(q.GroupBy) > 0 || q.GroupAll {
		c = append(c, "groupby-tags")
	}
	if q.Desc {
		c = append(c, "order-desc")
	}
	if q.Limit > 0 || q.RowOffset > 0 {
		c = append(c, "limit-offset")
	}
	if q.SLimit > 0 || q.SOffset > 0 {
		c = append(c, "slimit-soffset")
	}
	return c
}

func condShape(c refql.Cond) string {
	switch c := c.(type) {
	case refql.And:
		return condShape(c.L) + "&" + condShape(c.R)
	case refql.Or:
		return condShape(c.L) + "|" + condShape(c.R)
	case refql.TagCmp:
		return "T"
	case refql.FieldCmp:
		return "F"
	}
	return ""
}

func drawQuery(t *rapid.T, ds *dataset, d *refql.Data) *refql.Query {
	fields := ds.usedFields(d)
	if len(fields) == 0 {
		fields = []fieldUse{{"f", refql.Float}}
	}
	q := &refql.Query{Measurement: measurement}
	// about one statement in eight is a lone MIN()/MAX() over a numeric field, mostly without GROUP BY
	// time (the row then carries the time of the selected point) and often with tag columns: the
	// shape in which it shows which of several points with the extreme value was selected
	var numeric []fieldUse
	for _, f := range fields {
		if f.kind == refql.Float || f.kind == refql.Integer || f.kind == refql.Unsigned {
			numeric = append(numeric, f)
		}
	}
	probe := len(numeric) > 0 && roll(t, 100, "minmaxShape") < 15
	isCall := probe || roll(t, 100, "isCall") < 62
	outKind := refql.Float
	selector := false
	callFns := func(k refql.Kind) []string {
		switch k {
		case refql.Float, refql.Integer, refql.Unsigned:
			return []string{"count", "sum", "mean", "min", "max", "first", "last"}
		}
		return []string{"count", "first", "last"}
	}
	if isCall {
		f := pick(t, fields, "callField")
		var fns []string
		switch f.kind {
		case refql.Float, refql.Integer, refql.Unsigned:
			fns = []string{"count", "sum", "mean", "min", "max", "first", "last"}
		default:
			fns = []string{"count", "first", "last"}
		}
		if probe {
			f = pick(t, numeric, "minmaxField")
			fns = []string{"min", "max", "max"}
		}
		fn := pick(t, fns, "func")
		q.Proj = []refql.Proj{{Kind: refql.ProjCall, Func: fn, Name: f.name}}
		outKind = refql.OutputKind(fn, f.kind)
		selector = fn == "min" || fn == "max" || fn == "first" || fn == "last"
	} else {
		n := rapid.IntRange(1, 3).Draw(t, "nProj")
		perm := rapid.Permutation(fields).Draw(t, "projFields")
		if n > len(perm) {
			n = len(perm)
		}
		for _, f := range perm[:n] {
			q.Proj = append(q.Proj, refql.Proj{Kind: refql.ProjField, Name: f.name})
		}
		if roll(t, 3, "projTags") == 0 {
			for _, k := range []string{"t1", "t2"} {
				if rapid.Bool().Draw(t, "projTag") {
					q.Proj = append(q.Proj, refql.Proj{Kind: refql.ProjTag, Name: k})
				}
			}
		}
	}

	// GROUP BY time: always with explicit lower and upper bounds
	withInterval := isCall && roll(t, 100, "withInterval") < map[bool]int{true: 25, false: 70}[probe]
	wantMulti := isCall && !probe && roll(t, 100, "multiCall") < 38
	var lo, hi int64
	if withInterval || roll(t, 100, "timeBounds") < map[bool]int{true: 35, false: 55}[probe] {
		lo, hi = drawInstant(t, ds, "lo"), drawInstant(t, ds, "hi")
		if lo > hi && roll(t, 20, "inverted") != 0 {
			lo, hi = hi, lo
		}
		// the whole data set (more often for several calls over intervals: the per-call streams
		// should have a few intervals each to differ in)
		if roll(t, 10, "wide") < map[bool]int{true: 7, false: 5}[wantMulti && withInterval] {
			lo, hi = baseTime-10*minute, baseTime+int64(ds.Hours)*hour+10*minute
		}
		hasLo := withInterval || roll(t, 4, "hasLo") != 0
		hasHi := withInterval || roll(t, 4, "hasHi") != 0
		if hasLo {
			q.Times = append(q.Times, refql.TimeBound{Op: pick(t, []refql.Op{refql.GTE, refql.GTE, refql.GT}, "loOp"), T: lo, Style: rapid.IntRange(0, 2).Draw(t, "loStyle")})
		}
		if hasHi {
			q.Times = append(q.Times, refql.TimeBound{Op: pick(t, []refql.Op{refql.LT, refql.LTE, refql.LTE}, "hiOp"), T: hi, Style: rapid.IntRange(0, 2).Draw(t, "hiStyle")})
		}
		if hasLo && hasHi && roll(t, 10, "extraBound") == 0 {
			// a second, weaker lower bound: the tighter one wins
			q.Times = append(q.Times, refql.TimeBound{Op: refql.GTE, T: lo - int64(rapid.IntRange(0, 100).Draw(t, "slack"))*minute})
		}
		if rapid.Bool().Draw(t, "swapBounds") {
			for i, j := 0, len(q.Times)-1; i < j; i, j = i+1, j-1 {
				q.Times[i], q.Times[j] = q.Times[j], q.Times[i]
			}
		}
	}
	// several calls in one statement: each call is evaluated over the points that have its field
	// and the per-call rows are joined on time. Fields with different coverage (the usual case:
	// every write carries a random subset of the series' fields) make the per-call streams differ.
	multi := false
	fn0Selector := selector
	allNumeric := outKind == refql.Float || outKind == refql.Integer || outKind == refql.Unsigned
	anyUnsigned := outKind == refql.Unsigned
	if wantMulti {
		known := ds.fieldsKnownIn(measurement, q)
		// other: different fields that some series has together with the first call's field (calls
		// over fields of different series never meet in one output series unless series are merged)
		together := map[string]bool{}
		bySeries := map[string]map[string]bool{}
		for _, p := range d.Points {
			k := fmt.Sprint(p.Tags)
			if bySeries[k] == nil {
				bySeries[k] = map[string]bool{}
			}
			for f := range p.Fields {
				bySeries[k][f] = true
			}
		}
		for _, fs := range bySeries {
			if fs[q.Proj[0].Name] {
				for f := range fs {
					together[f] = true
				}
			}
		}
		var cand, other []fieldUse
		for _, f := range fields {
			if known[f.name] {
				cand = append(cand, f)
				if f.name != q.Proj[0].Name && together[f.name] {
					other = append(other, f)
				}
			}
		}
		if !known[q.Proj[0].Name] || len(cand) == 0 {
			// a call on a name that no queried shard knows as a field yields a column of nulls whatever
			// the fill option says; what it should yield is not documented
			rec.Class("dropped:several-calls-with-field-unknown-in-queried-shards")
		} else {
			multi, selector = true, false
			extra := pick(t, []int{1, 1, 1, 2, 2, 3}, "extraCalls")
			for e := 0; e < extra; e++ {
				from := cand
				if len(other) > 0 && roll(t, 5, "otherField") != 0 {
					from = other
				}
				f := pick(t, from, "callField")
				fn := pick(t, callFns(f.kind), "func")
				same := false
				for _, p := range q.Proj {
					same = same || (p.Func == fn && p.Name == f.name)
				}
				if same {
					// the same call twice is one call with two columns: whether a lone selector written
					// twice still returns the time of its point is not documented
					rec.Class("dropped:same-call-twice-in-one-statement")
					continue
				}
				q.Proj = append(q.Proj, refql.Proj{Kind: refql.ProjCall, Func: fn, Name: f.name})
				k := refql.OutputKind(fn, f.kind)
				allNumeric = allNumeric && (k == refql.Float || k == refql.Integer || k == refql.Unsigned)
				anyUnsigned = anyUnsigned || k == refql.Unsigned
			}
			if len(q.Proj) == 1 {
				multi, selector = false, fn0Selector
			}
			// column names: a call's column is named after its function; when a function occurs twice
			// (or one time in four anyway) every call gets an alias
			dup := false
			for i := range q.Proj {
				for j := 0; j < i; j++ {
					dup = dup || q.Proj[i].Func == q.Proj[j].Func
				}
			}
			if dup || roll(t, 4, "alias") == 0 {
				for i := range q.Proj {
					q.Proj[i].Alias = fmt.Sprintf("c%d", i)
				}
			}
		}
	}
	if roll(t, 100, "hasCond") < map[bool]int{true: 25, false: 45}[probe] {
		known := ds.fieldsKnownIn(measurement, q)
		var condFields []fieldUse
		for _, f := range fields {
			if known[f.name] {
				condFields = append(condFields, f)
			}
		}
		if len(condFields) < len(fields) {
			rec.Class("dropped:condition-on-field-unknown-in-queried-shards")
		}
		q.Cond = drawCond(t, condFields, 0)
		q.TimeLast = rapid.Bool().Draw(t, "timeLast")
	}
	// (a lone MIN()/MAX() more often over all series merged: values 10-13 mean no GROUP BY tags)
	switch roll(t, map[bool]int{true: 14, false: 10}[probe], "groupBy") {
	case 0, 1:
		q.GroupBy = []string{"t1"}
	case 2:
		q.GroupBy = []string{"t2"}
	case 3:
		q.GroupBy = []string{"t1", "t2"}
	case 4:
		q.GroupBy = []string{"t2", "t1"}
	case 5, 6:
		q.GroupAll = true
	}
	if withInterval {
		rlo, rhi, _, _ := q.TimeRange()
		span := rhi - rlo
		if span < 0 {
			span = 0
		}
		iv := pick(t, intervals, "interval")
		for span/iv > 250 {
			iv *= 4
		}
		q.Interval = iv
		switch roll(t, 10, "offset") {
		case 0, 1:
			q.HasOffset, q.Offset = true, int64(rapid.IntRange(1, int(iv/int64(time.Second))).Draw(t, "offS"))*int64(time.Second)%iv
		case 2:
			q.HasOffset, q.Offset = true, -(int64(rapid.IntRange(1, int(iv/int64(time.Second))).Draw(t, "offS")) * int64(time.Second) % iv)
		case 3:
			q.HasOffset, q.Offset = true, iv+int64(rapid.IntRange(0, 600).Draw(t, "offS"))*int64(time.Second)
		case 4:
			q.HasOffset, q.Offset = true, int64(rapid.IntRange(0, 1).Draw(t, "offNs"))
		}
		modes := []refql.FillMode{refql.FillDefault, refql.FillNull, refql.FillNone, refql.FillPrevious}
		if multi {
			// under fill(none) the calls are not in lock step: every call reports its own intervals
			modes = append(modes, refql.FillNone, refql.FillNone, refql.FillNone, refql.FillNone)
		}
		if allNumeric {
			modes = append(modes, refql.FillValue, refql.FillLinear, refql.FillPrevious, refql.FillLinear)
		} else {
			rec.Class("dropped:fill-value-or-linear-on-string-or-boolean-result")
		}
		q.Fill = pick(t, modes, "fill")
		if q.Fill == refql.FillValue {
			q.FillInt = int64(rapid.IntRange(0, 9).Draw(t, "fillValue"))
			if !anyUnsigned && rapid.Bool().Draw(t, "fillNeg") {
				q.FillInt = -q.FillInt
			}
		}
	}
	wantSelTags := selector && roll(t, 4, "selTags") < map[bool]int{true: 2, false: 1}[probe]
	if wantSelTags && !(q.Interval == 0 || q.Fill == refql.FillNone || q.Fill == refql.FillNull || q.Fill == refql.FillDefault) {
		// what the tag columns of a filled row hold is not documented (the engine puts the fill value
		// or the previous tag there): not generated
		rec.Class("dropped:selector+tags-under-fill-value-previous-linear")
		wantSelTags = false
	}
	if wantSelTags {
		// selector + tags: the tags of the selected point
		for _, k := range []string{"t1", "t2"} {
			if rapid.Bool().Draw(t, "selTag") {
				q.Proj = append(q.Proj, refql.Proj{Kind: refql.ProjTag, Name: k})
			}
		}
	}
	q.Desc = roll(t, 10, "desc") < map[bool]int{true: 4, false: 3}[multi]
	grouped := len(q.GroupBy) > 0 || q.GroupAll
	if roll(t, 100, "limits") < map[bool]int{true: 15, false: 40}[probe] {
		q.Limit = rapid.IntRange(1, 6).Draw(t, "limit")
		if roll(t, 15, "offsetOnly") == 0 {
			q.Limit = 0
		}
		if q.Limit == 0 || rapid.Bool().Draw(t, "hasOffset") {
			q.RowOffset = pick(t, []int{1, 1, 2, 2, 3, 5}, "rowOffset")
		}
	}
	if q.RowOffset > 0 && isCall && q.Interval == 0 && roll(t, 4, "keepOffset") != 0 {
		q.RowOffset = 0 // one row per series: OFFSET would empty almost every result
	}
	if roll(t, 100, "slimits") < map[bool]int{true: 35, false: 6}[grouped] {
		// SLIMIT/SOFFSET are not combined with OFFSET: whether a series emptied by OFFSET still
		// counts as one of the N series is not documented
		if q.RowOffset > 0 {
			rec.Class("dropped:offset-combined-with-slimit-soffset")
		}
		q.RowOffset = 0
		q.SLimit = rapid.IntRange(1, 3).Draw(t, "slimit")
		if roll(t, 15, "soffsetOnly") == 0 {
			q.SLimit = 0
		}
		if q.SLimit == 0 || rapid.Bool().Draw(t, "hasSOffset") {
			q.SOffset = pick(t, []int{1, 1, 1, 1, 2, 3}, "soffset")
		}
	}
	return q
}
