package c22_influxql

import (
	"testing"

	"verifharness/internal/ev"
)

func TestMain(m *testing.M) { ev.Main(m) }
