// C40 — Partial writes store exactly the accepted points.
//
// A real shard (fix.ShardFix; one with Config.ValidateKeys on, one with it off) is seeded with a
// generated schema under a measurement name that is fresh for every case, then receives batches
// of 1..12 points where each point independently is valid, conflicts with the schema on its
// first / middle / last field, carries a `time` tag, carries only a `time` field, carries a
// `time` field plus valid fields, carries a string field of exactly MaxFieldValueLength or one
// byte more, or (ValidateKeys on) has invalid UTF-8 in a tag value.
//
// Oracle: Shard.WritePoints returns a PartialWriteError whose Dropped equals the number of
// points the model rejects (nil when none is rejected); every (series, field) touched by the
// batch — including the fields of rejected points that precede the offending field — is read
// back through cursors and must equal the model of accepted points.
//
// TestPropConcurrentPartialWrites (end of file) applies the same oracle to 2..4 concurrent writers
// that introduce the same new field with different types (the rejection reason "field type
// conflict" decided by a race).
package c40_partial

import (
	"errors"
	"fmt"
	"os"
	"runtime"
	"sort"
	"strings"
	"sync"
	"sync/atomic"
	"testing"
	"time"

	"github.com/influxdata/influxdb/v2/models"
	"github.com/influxdata/influxdb/v2/tsdb"
	"github.com/influxdata/influxql"
	"pgregory.net/rapid"

	"verifharness/internal/ev"
	"verifharness/internal/fix"
	"verifharness/internal/model"
	"verifharness/internal/scratch"
)

var rec = ev.For("C40", "exploration",
	"case = a schema seeded on a real shard plus 1..3 generated batches of 1..12 points mixing valid points with points rejected for a field type conflict (first/middle/last field), a `time` tag, only a `time` field, a too-long string field, or invalid UTF-8 in a tag (ValidateKeys); non-trivial = a batch with >=1 accepted and >=1 rejected point where a rejected point's first field is valid; distinct by rendered batch. Concurrent cases: 2..4 writers call WritePoints at once, each batch introducing the same new field of 6..40 fresh measurements with writer-specific types between valid / conflicting / time-tag / invalid-UTF-8 points; non-trivial = a writer that lost >=1 race and has >=1 accepted point; distinct by rendered batches")

const knownTimeKey = "time-field-not-stripped"

var kinds = []model.Kind{model.Float, model.Integer, model.Unsigned, model.Boolean, model.String}

// ---------------------------------------------------------------------------------------------
// fixtures shared by the cases of one process

type shared struct {
	f     *fix.ShardFix
	root  string
	vk    bool
	cases int
	dirty bool
}

func (s *shared) ensure(t *rapid.T) {
	if s.f != nil && !s.dirty && s.cases < 150 {
		return
	}
	s.close()
	root, err := scratch.Dir("c40-")
	if err != nil {
		t.Fatalf("scratch: %v", err)
	}
	vk := s.vk
	f := &fix.ShardFix{Root: root, Tweak: func(o *tsdb.EngineOptions) { o.Config.ValidateKeys = vk }}
	if err := f.Open(); err != nil {
		os.RemoveAll(root)
		t.Fatalf("fixture: %v", err)
	}
	s.f, s.root, s.cases, s.dirty = f, root, 0, false
}

func (s *shared) close() {
	if s.f != nil {
		s.f.Close()
		s.f = nil
	}
	if s.root != "" {
		os.RemoveAll(s.root)
		s.root = ""
	}
}

var (
	fixOff = &shared{vk: false}
	fixOn  = &shared{vk: true}
	caseNo int
)

// ---------------------------------------------------------------------------------------------
// points

type wfield struct {
	Name string    `json:"name"`
	V    model.Val `json:"v"`
}

type wpoint struct {
	Cat    string   `json:"cat"`
	M      string   `json:"m"`
	Host   string   `json:"host"`
	TimeTg bool     `json:"time_tag,omitempty"`
	BadTag bool     `json:"bad_utf8_tag,omitempty"`
	T      int64    `json:"t"`
	Fields []wfield `json:"fields"` // sorted by name
}

func (p wpoint) tags() models.Tags {
	m := map[string]string{"host": p.Host}
	if p.TimeTg {
		m["time"] = "x"
	}
	if p.BadTag {
		m["loc"] = "a\xffb"
	}
	return models.NewTags(m)
}

func (p wpoint) series() string { return string(models.MakeKey([]byte(p.M), p.tags())) }

func (p wpoint) toPoint() (models.Point, error) {
	fs := models.Fields{}
	for _, f := range p.Fields {
		fs[f.Name] = f.V.Interface()
	}
	return models.NewPoint(p.M, p.tags(), fs, time.Unix(0, p.T))
}

func (p wpoint) String() string {
	var sb strings.Builder
	fmt.Fprintf(&sb, "[%s %q@%d", p.Cat, p.series(), p.T)
	for _, f := range p.Fields {
		fmt.Fprintf(&sb, " %s=%s", f.Name, f.V)
	}
	sb.WriteString("]")
	return sb.String()
}

func renderBatch(b []wpoint) string {
	var sb strings.Builder
	for _, p := range b {
		sb.WriteString(p.String())
	}
	return sb.String()
}

func sortFields(fs []wfield) []wfield {
	sort.Slice(fs, func(i, j int) bool { return fs[i].Name < fs[j].Name })
	return fs
}

func seqValue(k model.Kind, seq int) model.Val {
	switch k {
	case model.Float:
		return model.Val{K: k, F: float64(seq) + 0.5}
	case model.Integer:
		return model.Val{K: k, I: int64(seq)}
	case model.Unsigned:
		return model.Val{K: k, U: uint64(seq)}
	case model.Boolean:
		return model.Val{K: k, B: seq%2 == 0}
	default:
		return model.Val{K: k, S: fmt.Sprintf("v%d", seq)}
	}
}

func kindOf(dt influxql.DataType) model.Kind {
	switch dt {
	case influxql.Float:
		return model.Float
	case influxql.Integer:
		return model.Integer
	case influxql.Unsigned:
		return model.Unsigned
	case influxql.Boolean:
		return model.Boolean
	case influxql.String:
		return model.String
	}
	return model.Kind(100 + int(dt))
}

// ---------------------------------------------------------------------------------------------
// model of one case (one measurement)

type caseModel struct {
	t    *rapid.T
	fx   *shared
	m    string
	sch  map[string]model.Kind
	data map[string]map[int64]model.Val // series + "\x00" + field
	// timeKind: type of the illegal `time` field first carried by an ACCEPTED point of a series.
	// The validator reports that field as stripped, but the engine stores it under the field key
	// "time" (open known finding time-field-not-stripped), so a later `time` field of another
	// type for the same series makes the engine fail the whole batch.
	timeKind map[string]model.Kind
	seq      int
	hist     []string
}

type tentative struct {
	f string
	k model.Kind
}

func dkey(series, field string) string { return series + "\x00" + field }

// apply returns, per point, whether the model rejects it, and the fields that rejected points
// introduced before their offending field (created by the validator; the statement is silent
// about them, so they are resolved against the observed schema).
func (c *caseModel) apply(batch []wpoint, dry bool) (rejected []bool, firstValid []bool, tent []tentative) {
	if dry {
		saved := c.sch
		c.sch = map[string]model.Kind{}
		for f, k := range saved {
			c.sch[f] = k
		}
		defer func() { c.sch = saved }()
	}
	rejected = make([]bool, len(batch))
	firstValid = make([]bool, len(batch))
	for i, p := range batch {
		if p.TimeTg || (c.fx.vk && p.BadTag) {
			rejected[i] = true
			// such a point is refused before its fields are looked at; its first field is
			// "valid" in the sense of the non-trivial rule if it matches the schema
			if k, ok := c.sch[p.Fields[0].Name]; ok && k == p.Fields[0].V.K {
				firstValid[i] = true
			}
			continue
		}
		onlyTime := true
		for _, f := range p.Fields {
			if f.Name != "time" {
				onlyTime = false
			}
		}
		if onlyTime {
			rejected[i] = true
			continue
		}
		var created []tentative
		for j, f := range p.Fields {
			if f.V.K == model.String && len(f.V.S) > tsdb.MaxFieldValueLength {
				rejected[i] = true
				firstValid[i] = j > 0
				break
			}
			if f.Name == "time" {
				continue
			}
			if k, ok := c.sch[f.Name]; ok {
				if k != f.V.K {
					rejected[i] = true
					firstValid[i] = j > 0
					break
				}
				continue
			}
			c.sch[f.Name] = f.V.K
			created = append(created, tentative{f.Name, f.V.K})
		}
		if rejected[i] {
			tent = append(tent, created...)
			continue
		}
		if dry {
			continue
		}
		for _, f := range p.Fields {
			if f.Name == "time" {
				if _, ok := c.timeKind[p.series()]; !ok {
					c.timeKind[p.series()] = f.V.K
				}
				continue
			}
			k := dkey(p.series(), f.Name)
			if c.data[k] == nil {
				c.data[k] = map[int64]model.Val{}
			}
			c.data[k][p.T] = f.V
		}
	}
	return rejected, firstValid, tent
}

func (c *caseModel) fieldHasData(f string) bool {
	for k, pts := range c.data {
		if len(pts) > 0 && strings.HasSuffix(k, "\x00"+f) {
			return true
		}
	}
	return false
}

func (c *caseModel) observe() map[string]model.Kind {
	e, err := c.fx.f.Engine()
	if err != nil {
		c.t.Fatalf("engine: %v", err)
	}
	out := map[string]model.Kind{}
	if mf := e.MeasurementFieldSet().FieldsByString(c.m); mf != nil {
		for f, dt := range mf.FieldSet() {
			out[f] = kindOf(dt)
		}
	}
	return out
}

func (c *caseModel) fail(key, detail string, batch []wpoint) {
	rec.Fail(c.t, "TestPropPartialWrites", key, detail+"\nValidateKeys="+fmt.Sprint(c.fx.vk)+" schema before case batches: "+strings.Join(c.hist, " ; ")+"\nbatch: "+renderBatch(batch),
		map[string]any{"validate_keys": c.fx.vk, "history": c.hist, "batch": batch})
}

func schemaString(s map[string]model.Kind) string {
	var ns []string
	for f := range s {
		ns = append(ns, f)
	}
	sort.Strings(ns)
	var sb strings.Builder
	for _, f := range ns {
		k := s[f]
		name := fmt.Sprintf("type(%d)", int(k))
		if k >= 0 && int(k) <= int(model.String) {
			name = k.String()
		}
		fmt.Fprintf(&sb, " %s=%s", f, name)
	}
	return "{" + strings.TrimSpace(sb.String()) + "}"
}

// timeTypeClash reports the signature of known finding time-field-not-stripped: an accepted point
// carries a `time` field whose type differs from the `time` field of an earlier accepted point of
// the same series (earlier batch or earlier in this batch).
func (c *caseModel) timeTypeClash(batch []wpoint) bool {
	rejected, _, _ := c.apply(batch, true)
	tk := map[string]model.Kind{}
	for s, k := range c.timeKind {
		tk[s] = k
	}
	for i, p := range batch {
		if rejected[i] {
			continue
		}
		for _, f := range p.Fields {
			if f.Name != "time" {
				continue
			}
			if k, ok := tk[p.series()]; ok && k != f.V.K {
				return true
			}
			tk[p.series()] = f.V.K
		}
	}
	return false
}

// write sends one batch through Shard.WritePoints and checks error, schema and stored data.
// skipped = the batch has the signature of an open known finding and was not sent.
func (c *caseModel) write(batch []wpoint) (nAcc, nRej int, nontrivial, skipped bool) {
	clash := c.timeTypeClash(batch)
	if clash && ev.KnownOpen("C40", knownTimeKey) {
		rec.ExcludedKnown(knownTimeKey)
		rec.Class("batch:excluded-known-time-type-clash")
		return 0, 0, false, true
	}
	hasTimeField := false
	for _, p := range batch {
		for _, f := range p.Fields {
			if f.Name == "time" {
				hasTimeField = true
			}
		}
	}
	rejected, firstValid, tent := c.apply(batch, false)
	for i, r := range rejected {
		if r {
			nRej++
			if firstValid[i] {
				nontrivial = true
			}
		} else {
			nAcc++
		}
	}
	nontrivial = nontrivial && nAcc > 0
	var pts []models.Point
	for _, p := range batch {
		x, err := p.toPoint()
		if err != nil {
			c.t.Fatalf("harness: cannot build point %v: %v", p, err)
		}
		pts = append(pts, x)
	}
	err := c.fx.f.Write(pts)
	var pwe tsdb.PartialWriteError
	var ppwe *tsdb.PartialWriteError
	if errors.As(err, &ppwe) {
		pwe = *ppwe
	}
	switch {
	case err == nil:
		if nRej != 0 {
			c.fail("rejection-not-reported", fmt.Sprintf("the model rejects %d of %d points but WritePoints returned nil", nRej, len(batch)), batch)
		}
	case errors.As(err, &pwe) || ppwe != nil:
		if pwe.Dropped != nRej {
			c.fail("dropped-count", fmt.Sprintf("PartialWriteError.Dropped=%d but the model rejects %d of %d points (%v)", pwe.Dropped, nRej, len(batch), err), batch)
		}
		if nRej == 0 {
			if !hasTimeField {
				c.fail("spurious-partial-error", fmt.Sprintf("no point is rejected and no `time` field was stripped, yet WritePoints returned %v", err), batch)
			}
			rec.Class("error:partial-with-dropped-0(time-field-stripped)")
		}
	default:
		key := "unexpected-write-error"
		if clash {
			key = knownTimeKey
		}
		c.fail(key, fmt.Sprintf("WritePoints returned %v (model rejects %d of %d points)", err, nRej, len(batch)), batch)
	}

	// fields introduced by rejected points before their offending field
	obs := c.observe()
	for _, tf := range tent {
		o, ok := obs[tf.f]
		switch {
		case !ok:
			rec.Class("schema:field-of-rejected-point-not-recorded")
			if !c.fieldHasData(tf.f) {
				delete(c.sch, tf.f)
			}
		case o == tf.k:
			rec.Class("schema:field-of-rejected-point-recorded")
		default:
			c.fail("schema-mismatch", fmt.Sprintf("field %s introduced as %v by a rejected point is recorded as %v", tf.f, tf.k, o), batch)
		}
	}
	if schemaString(obs) != schemaString(c.sch) {
		c.fail("schema-mismatch", fmt.Sprintf("recorded fields of %q are %s, model %s", c.m, schemaString(obs), schemaString(c.sch)), batch)
	}

	// read back everything the batch touched
	keys := map[string]bool{}
	for _, p := range batch {
		for _, f := range p.Fields {
			keys[dkey(p.series(), f.Name)] = true
		}
	}
	ks := make([]string, 0, len(keys))
	for k := range keys {
		ks = append(ks, k)
	}
	sort.Strings(ks)
	for _, k := range ks {
		i := strings.IndexByte(k, 0)
		series, field := k[:i], k[i+1:]
		got, err := c.fx.f.Read(series, field, models.MinNanoTime, models.MaxNanoTime, true)
		if err != nil {
			c.fail("read-error", fmt.Sprintf("reading %q %s: %v", series, field, err), batch)
		}
		want := c.data[k]
		ts := make([]int64, 0, len(want))
		for t := range want {
			ts = append(ts, t)
		}
		sort.Slice(ts, func(a, b int) bool { return ts[a] < ts[b] })
		ok := len(got) == len(ts)
		for j := 0; ok && j < len(ts); j++ {
			ok = got[j].T == ts[j] && got[j].V.Equal(want[ts[j]])
		}
		if !ok {
			var w, g []string
			for _, t := range ts {
				w = append(w, fmt.Sprintf("%d:%s", t, want[t]))
			}
			for _, p := range got {
				g = append(g, fmt.Sprintf("%d:%s", p.T, p.V))
			}
			key := "accepted-point-not-stored"
			if len(got) > len(ts) {
				key = "rejected-point-stored"
			} else if len(got) == len(ts) {
				key = "stored-value-differs"
			}
			c.fail(key, fmt.Sprintf("%q field %s: read %v, model of accepted points %v", series, field, g, w), batch)
		}
		if field == "time" {
			rec.Class("time-field:not-readable-through-cursors")
		}
	}
	return nAcc, nRej, nontrivial, false
}

// ---------------------------------------------------------------------------------------------
// generators

var (
	hosts     = []string{"s0", "s1", "s2"}
	baseNames = []string{"a", "b", "c", "d", "e"}
	newNames  = []string{"aa", "n1", "z1"} // sort before / between / after the base names and "time"
	bigNames  = []string{"abig", "cbig", "zbig"}
)

func (c *caseModel) existing() []string {
	var ns []string
	for f := range c.sch {
		ns = append(ns, f)
	}
	sort.Strings(ns)
	return ns
}

func (c *caseModel) otherKind(k model.Kind) model.Kind {
	return kinds[(int(k)+1+rapid.IntRange(0, len(kinds)-2).Draw(c.t, "other"))%len(kinds)]
}

// validFields draws 1..3 fields that agree with the schema (sometimes one new field).
func (c *caseModel) validFields(min int) []wfield {
	ex := c.existing()
	n := rapid.IntRange(min, 3).Draw(c.t, "nf")
	picked := map[string]bool{}
	var out []wfield
	for i := 0; i < n; i++ {
		var name string
		if len(ex) == 0 || rapid.IntRange(0, 5).Draw(c.t, "new?") == 0 {
			name = rapid.SampledFrom(append(append([]string{}, baseNames...), newNames...)).Draw(c.t, "newName")
		} else {
			name = rapid.SampledFrom(ex).Draw(c.t, "exName")
		}
		if picked[name] {
			continue
		}
		picked[name] = true
		k, ok := c.sch[name]
		if !ok {
			k = rapid.SampledFrom(kinds).Draw(c.t, "newKind")
		}
		c.seq++
		out = append(out, wfield{name, seqValue(k, c.seq)})
	}
	return sortFields(out)
}

var bigCache = map[int]string{}

func bigString(n int) string {
	if s, ok := bigCache[n]; ok {
		return s
	}
	s := strings.Repeat("x", n)
	bigCache[n] = s
	return s
}

func (c *caseModel) genPoint(allowBig *bool) wpoint {
	p := wpoint{M: c.m, Host: rapid.SampledFrom(hosts).Draw(c.t, "host"), T: int64(rapid.IntRange(0, 9).Draw(c.t, "ts"))}
	cat := rapid.IntRange(0, 19).Draw(c.t, "cat")
	ex := c.existing()
	switch {
	case cat < 6:
		p.Cat = "valid"
		p.Fields = c.validFields(1)
	case cat < 11 && len(ex) > 0:
		// type conflict on an existing field; position among the point's sorted fields varies
		p.Cat = "conflict"
		p.Fields = c.validFields(1)
		victim := rapid.SampledFrom(ex).Draw(c.t, "victim")
		c.seq++
		bad := wfield{victim, seqValue(c.otherKind(c.sch[victim]), c.seq)}
		replaced := false
		for i := range p.Fields {
			if p.Fields[i].Name == victim {
				p.Fields[i] = bad
				replaced = true
			}
		}
		if !replaced {
			p.Fields = sortFields(append(p.Fields, bad))
		}
	case cat < 13:
		p.Cat = "time-tag"
		p.TimeTg = true
		p.Fields = c.validFields(1)
	case cat < 15:
		p.Cat = "only-time-field"
		c.seq++
		p.Fields = []wfield{{"time", seqValue(rapid.SampledFrom(kinds).Draw(c.t, "tk"), c.seq)}}
	case cat < 17:
		p.Cat = "time-field+valid"
		c.seq++
		tk := rapid.SampledFrom(kinds).Draw(c.t, "tk")
		if k, ok := c.timeKind[p.series()]; ok && rapid.IntRange(0, 9).Draw(c.t, "tkSame") < 9 {
			tk = k // mostly the type already carried for this series (see timeKind)
		}
		p.Fields = sortFields(append(c.validFields(1), wfield{"time", seqValue(tk, c.seq)}))
	case cat < 19 && *allowBig:
		*allowBig = false
		n := tsdb.MaxFieldValueLength
		p.Cat = "string-at-limit"
		if rapid.Bool().Draw(c.t, "over") {
			n++
			p.Cat = "string-over-limit"
		}
		name := rapid.SampledFrom(bigNames).Draw(c.t, "bigName")
		if k, ok := c.sch[name]; ok && k != model.String {
			name = "zzbig" // keep the size check the only reason
		}
		p.Fields = c.validFields(0)
		kept := p.Fields[:0]
		for _, f := range p.Fields {
			if f.Name != name {
				kept = append(kept, f)
			}
		}
		p.Fields = sortFields(append(kept, wfield{name, model.Val{K: model.String, S: bigString(n)}}))
	case c.fx.vk:
		p.Cat = "invalid-utf8-tag"
		p.BadTag = true
		p.Fields = c.validFields(1)
	default:
		p.Cat = "valid"
		p.Fields = c.validFields(1)
	}
	if len(p.Fields) == 0 {
		c.seq++
		p.Fields = []wfield{{"a", seqValue(kindOr(c.sch, "a"), c.seq)}}
	}
	return p
}

func kindOr(s map[string]model.Kind, f string) model.Kind {
	if k, ok := s[f]; ok {
		return k
	}
	return model.Float
}

// ---------------------------------------------------------------------------------------------

func TestPropPartialWrites(t *testing.T) {
	defer fixOff.close()
	defer fixOn.close()
	rec.Assume("fields that a rejected point introduced before its offending field are created by the validator (documented in ValidateAndCreateFields); the statement is silent, so they are resolved against the observed schema and carry no data")
	rec.Assume("the illegal `time` field of an otherwise accepted point is reported as stripped with Dropped=0; whether its value is kept is not asserted (it is not readable through the schema-driven cursors)")
	rec.Assume("invalid UTF-8 in a tag is generated only on the shard with Config.ValidateKeys=true (otherwise it is not a rejection reason)")
	rec.Assume("reads use [models.MinNanoTime, models.MaxNanoTime]; data stays in cache/WAL (no snapshot), restarts are covered by C10/C02")
	rec.Check(t, 2200, 40000, func(t *rapid.T) {
		fx := fixOff
		if rapid.IntRange(0, 2).Draw(t, "validateKeys") == 0 {
			fx = fixOn
		}
		fx.ensure(t)
		fx.dirty = true
		fx.cases++
		caseNo++
		c := &caseModel{t: t, fx: fx, m: fmt.Sprintf("p%d", caseNo), sch: map[string]model.Kind{}, data: map[string]map[int64]model.Val{}, timeKind: map[string]model.Kind{}}

		// seed schema: 2..4 fields with fixed types, written by one valid point
		ns := rapid.IntRange(2, 4).Draw(t, "seedFields")
		seed := wpoint{Cat: "seed", M: c.m, Host: "s0", T: 0}
		for i := 0; i < ns; i++ {
			c.seq++
			seed.Fields = append(seed.Fields, wfield{baseNames[i], seqValue(rapid.SampledFrom(kinds).Draw(t, "seedKind"), c.seq)})
		}
		c.write([]wpoint{seed})
		c.hist = append(c.hist, "seed "+schemaString(c.sch))

		nb := rapid.IntRange(1, 3).Draw(t, "batches")
		for b := 0; b < nb; b++ {
			n := rapid.IntRange(1, 12).Draw(t, "points")
			allowBig := rapid.IntRange(0, 1).Draw(t, "big?") == 0
			var batch []wpoint
			for i := 0; i < n; i++ {
				batch = append(batch, c.genPoint(&allowBig))
			}
			nAcc, nRej, nontrivial, skipped := c.write(batch)
			if skipped {
				continue
			}
			rec.Eval()
			for _, p := range batch {
				rec.Class("point:" + p.Cat)
			}
			switch {
			case nRej == 0:
				rec.Class("batch:all-accepted")
			case nAcc == 0:
				rec.Class("batch:all-rejected")
			default:
				rec.Class("batch:partial")
			}
			if nontrivial {
				rec.Class("batch:partial-with-rejected-point-whose-first-field-is-valid")
				rec.NonTrivial(fmt.Sprintf("vk=%v %s | %s", fx.vk, c.hist[0], strings.ReplaceAll(renderBatch(batch), c.m, "M")))
			}
			if rec.WantSample() && nontrivial && n <= 6 {
				rec.Sample(map[string]any{"validate_keys": fx.vk, "schema": c.hist[0], "batch": strings.ReplaceAll(renderBatch(batch), c.m, "M"), "accepted": nAcc, "rejected": nRej})
			}
			c.hist = append(c.hist, fmt.Sprintf("batch%d acc=%d rej=%d", b, nAcc, nRej))
		}
		fx.dirty = false
	})
}

// TestKnown_time_field_not_stripped: the validator reports the illegal `time` field of an accepted
// point as stripped, but Engine.WritePoints stores it under the field key "time". A later point of
// the same series with a `time` field of another type makes the cache refuse the batch: the write
// fails with "engine: field type conflict" (no PartialWriteError, no dropped count) and the other
// accepted points of the batch are in the cache only (not in the WAL; gone after a restart).
func TestKnown_time_field_not_stripped(t *testing.T) {
	root, err := scratch.Dir("c40-known-")
	if err != nil {
		t.Fatal(err)
	}
	defer os.RemoveAll(root)
	f, err := fix.NewShardFix(root)
	if err != nil {
		t.Fatal(err)
	}
	defer f.Close()
	pt := func(host string, ts int64, fs models.Fields) models.Point {
		p, err := models.NewPoint("m", models.NewTags(map[string]string{"host": host}), fs, time.Unix(0, ts))
		if err != nil {
			t.Fatal(err)
		}
		return p
	}
	isPartial := func(err error) bool {
		var pwe tsdb.PartialWriteError
		var ppwe *tsdb.PartialWriteError
		return errors.As(err, &pwe) || errors.As(err, &ppwe)
	}
	err1 := f.Write([]models.Point{pt("a", 1, models.Fields{"a": 1.0, "time": true})})
	if err1 != nil && !isPartial(err1) {
		t.Fatalf("first write: %v", err1)
	}
	err2 := f.Write([]models.Point{pt("a", 2, models.Fields{"a": 2.0, "time": int64(5)}), pt("b", 3, models.Fields{"a": 3.0})})
	reproduced := err2 != nil && !isPartial(err2)
	rec.Known(t, "TestKnown_time_field_not_stripped", knownTimeKey, reproduced,
		fmt.Sprintf("write [m,host=a a=1,time=true] (reported: time stripped, dropped=0), then [m,host=a a=2,time=5i ; m,host=b a=3]: no point is rejectable, yet WritePoints returns %q instead of nil / PartialWriteError{Dropped:0}; the `time` field is not stripped but stored under field key \"time\", and the accepted points of the failed batch are in the cache only", fmt.Sprint(err2)),
		map[string]any{"first_write_error": fmt.Sprint(err1), "second_write_error": fmt.Sprint(err2)})
}

// ---------------------------------------------------------------------------------------------
// concurrent writers (same technique as c10_fields' concurrentNewField, with C40's oracle)
//
// 2..4 writers call Shard.WritePoints at the same time. Every writer's batch carries, for each of
// 6..40 fresh measurements, one point that introduces the SAME not-yet-existing field with a type
// that differs between (at least two of) the writers, interleaved with points that are valid,
// conflict with the seeded schema, carry a `time` tag or (ValidateKeys) an invalid UTF-8 tag.
// Writers use their own series and timestamps, so the stored data does not depend on the order.
//
// Oracle: no schema is ever removed in this test, so a field keeps the type of whichever writer
// registered it first. After all writers returned, the recorded type of every raced field must be
// one that a writer wrote; then, for every writer separately, a point is rejected iff it has a
// `time` tag / invalid key or one of its fields differs from the recorded type ("rejected for that
// point only"): PartialWriteError.Dropped must equal that number (nil when 0), accepted points are
// read back, rejected ones must not be readable.

type cwriter struct {
	Host  string   `json:"host"`
	Batch []wpoint `json:"batch"`
}

func writeErrorVerdict(err error, nRej, n int) (key, detail string) {
	var pwe tsdb.PartialWriteError
	var ppwe *tsdb.PartialWriteError
	if errors.As(err, &ppwe) {
		pwe = *ppwe
	}
	switch {
	case err == nil:
		if nRej != 0 {
			return "rejection-not-reported", fmt.Sprintf("%d of %d points must be rejected but WritePoints returned nil", nRej, n)
		}
	case errors.As(err, &pwe) || ppwe != nil:
		if pwe.Dropped != nRej {
			return "dropped-count", fmt.Sprintf("PartialWriteError.Dropped=%d but %d of %d points must be rejected (%v)", pwe.Dropped, nRej, n, err)
		}
		if nRej == 0 {
			return "spurious-partial-error", fmt.Sprintf("no point is rejectable, yet WritePoints returned %v", err)
		}
	default:
		return "unexpected-write-error", fmt.Sprintf("WritePoints returned %v (%d of %d points must be rejected)", err, nRej, n)
	}
	return "", ""
}

func TestPropConcurrentPartialWrites(t *testing.T) {
	defer fixOff.close()
	defer fixOn.close()
	rec.Assume("concurrent cases: without deletes a field keeps the type registered first (MeasurementFields.CreateFieldIfNotExists); which writer wins a race on a new field is not specified, so the winner is taken from the recorded schema (it must be a type some writer wrote) and every writer's error, dropped count and stored points are then asserted exactly against it")
	rec.Check(t, 260, 8000, func(t *rapid.T) {
		fx := fixOff
		if rapid.IntRange(0, 2).Draw(t, "validateKeys") == 0 {
			fx = fixOn
		}
		fx.ensure(t)
		fx.dirty = true
		fx.cases += 3
		caseNo++
		fail := func(key, detail string, ws []cwriter) {
			rec.Fail(t, "TestPropConcurrentPartialWrites", key, detail+"\nValidateKeys="+fmt.Sprint(fx.vk), map[string]any{"validate_keys": fx.vk, "writers": ws})
		}

		nM := rapid.IntRange(6, 40).Draw(t, "measurements")
		nW := rapid.IntRange(2, 4).Draw(t, "writers")
		ms := make([]string, nM)
		for k := range ms {
			ms[k] = fmt.Sprintf("q%d_%d", caseNo, k)
		}
		rf := rapid.SampledFrom(newNames).Draw(t, "racedField")
		seq := 0

		// seeded schema: a, b per measurement; optionally the writers' series exist already
		sch := map[string]map[string]model.Kind{}
		ka, kb := rapid.IntRange(0, len(kinds)-1).Draw(t, "ka"), rapid.IntRange(0, len(kinds)-1).Draw(t, "kb")
		seriesExist := rapid.IntRange(0, 2).Draw(t, "seriesExist") > 0
		data := map[string]map[int64]model.Val{}
		put := func(p wpoint) {
			for _, f := range p.Fields {
				k := dkey(p.series(), f.Name)
				if data[k] == nil {
					data[k] = map[int64]model.Val{}
				}
				data[k][p.T] = f.V
			}
		}
		var seed []wpoint
		for k, m := range ms {
			sch[m] = map[string]model.Kind{"a": kinds[(ka+k)%len(kinds)], "b": kinds[(kb+2*k)%len(kinds)]}
			hs := []string{"s0"}
			if seriesExist {
				for w := 0; w < nW; w++ {
					hs = append(hs, fmt.Sprintf("w%d", w))
				}
			}
			for _, h := range hs {
				seq += 2
				p := wpoint{Cat: "seed", M: m, Host: h, T: 0, Fields: []wfield{{"a", seqValue(sch[m]["a"], seq)}, {"b", seqValue(sch[m]["b"], seq+1)}}}
				seed = append(seed, p)
				put(p)
			}
		}
		toModels := func(b []wpoint) []models.Point {
			pts := make([]models.Point, 0, len(b))
			for _, p := range b {
				x, err := p.toPoint()
				if err != nil {
					t.Fatalf("harness: cannot build point %v: %v", p, err)
				}
				pts = append(pts, x)
			}
			return pts
		}
		if err := fx.f.Write(toModels(seed)); err != nil {
			fail("unexpected-write-error", fmt.Sprintf("seed write of %d valid points: %v", len(seed), err), nil)
		}

		// writers: type of the raced field per writer (at least writers 0 and 1 differ)
		wk := make([]int, nW)
		wk[0] = rapid.IntRange(0, len(kinds)-1).Draw(t, "wk0")
		wk[1] = (wk[0] + 1 + rapid.IntRange(0, len(kinds)-2).Draw(t, "wk1")) % len(kinds)
		for w := 2; w < nW; w++ {
			wk[w] = rapid.IntRange(0, len(kinds)-1).Draw(t, "wk")
		}
		racedKind := func(w, k int) model.Kind { return kinds[(wk[w]+k)%len(kinds)] }
		ws := make([]cwriter, nW)
		for w := range ws {
			host := fmt.Sprintf("w%d", w)
			ws[w].Host = host
			order := make([]int, nM)
			rot := rapid.IntRange(0, nM-1).Draw(t, "rot")
			back := rapid.Bool().Draw(t, "backwards")
			for i := range order {
				k := (rot + i) % nM
				if back {
					k = (rot + nM - i) % nM
				}
				order[i] = k
			}
			var b []wpoint
			add := func(p wpoint) {
				p.Host = host
				p.T = int64(1000*(w+1) + len(b))
				p.Fields = sortFields(p.Fields)
				b = append(b, p)
			}
			valid := func(m string) []wfield {
				seq++
				if rapid.Bool().Draw(t, "vf") {
					return []wfield{{"a", seqValue(sch[m]["a"], seq)}}
				}
				return []wfield{{"b", seqValue(sch[m]["b"], seq)}}
			}
			for _, k := range order {
				m := ms[k]
				// 0..1 other point before the racing one
				switch x := rapid.IntRange(0, 11).Draw(t, "extra"); {
				case x == 0:
					em := rapid.SampledFrom(ms).Draw(t, "em")
					add(wpoint{Cat: "valid", M: em, Fields: valid(em)})
				case x == 1:
					em := rapid.SampledFrom(ms).Draw(t, "em")
					seq++
					bad := wfield{"a", seqValue(kinds[(int(sch[em]["a"])+1+rapid.IntRange(0, len(kinds)-2).Draw(t, "other"))%len(kinds)], seq)}
					fs := []wfield{bad}
					if rapid.Bool().Draw(t, "withValid") {
						seq++
						fs = append(fs, wfield{"b", seqValue(sch[em]["b"], seq)})
					}
					add(wpoint{Cat: "conflict", M: em, Fields: fs})
				case x == 2:
					em := rapid.SampledFrom(ms).Draw(t, "em")
					p := wpoint{Cat: "time-tag", M: em, TimeTg: true, Fields: valid(em)}
					if fx.vk && rapid.Bool().Draw(t, "utf8") {
						p.Cat, p.TimeTg, p.BadTag = "invalid-utf8-tag", false, true
					}
					add(p)
				}
				seq++
				fs := []wfield{{rf, seqValue(racedKind(w, k), seq)}}
				if rapid.IntRange(0, 3).Draw(t, "raceWithValid") == 0 {
					fs = append(fs, valid(m)...)
				}
				add(wpoint{Cat: "race-new-field", M: m, Fields: fs})
			}
			ws[w].Batch = b
		}

		// run
		errs := make([]error, nW)
		var ready int32
		var wg sync.WaitGroup
		for w := range ws {
			pts := toModels(ws[w].Batch)
			wg.Add(1)
			go func(w int, pts []models.Point) {
				defer wg.Done()
				atomic.AddInt32(&ready, 1)
				for spin := 0; atomic.LoadInt32(&ready) < int32(nW); spin++ {
					if spin > 1<<16 { // fewer CPUs than writers: let the others reach the barrier
						runtime.Gosched()
					}
				}
				errs[w] = fx.f.Write(pts)
			}(w, pts)
		}
		wg.Wait()

		// recorded schema: seeded fields unchanged, raced field has a type some writer wrote
		e, err := fx.f.Engine()
		if err != nil {
			t.Fatalf("engine: %v", err)
		}
		for k, m := range ms {
			obs := map[string]model.Kind{}
			if mf := e.MeasurementFieldSet().FieldsByString(m); mf != nil {
				for f, dt := range mf.FieldSet() {
					obs[f] = kindOf(dt)
				}
			}
			win, ok := obs[rf]
			if !ok {
				fail("race-no-type-recorded", fmt.Sprintf("%d writers introduced field %s of %q concurrently; no type is recorded afterwards %s (errors %v)", nW, rf, m, schemaString(obs), errs), ws)
			}
			byWriter, distinct := false, map[model.Kind]bool{}
			for w := range ws {
				distinct[racedKind(w, k)] = true
				if racedKind(w, k) == win {
					byWriter = true
				}
			}
			if !byWriter {
				fail("race-foreign-type", fmt.Sprintf("recorded type of %q.%s is %s, which no writer wrote", m, rf, schemaString(map[string]model.Kind{rf: win})), ws)
			}
			sch[m][rf] = win
			if schemaString(obs) != schemaString(sch[m]) {
				fail("schema-mismatch", fmt.Sprintf("recorded fields of %q are %s, model %s", m, schemaString(obs), schemaString(sch[m])), ws)
			}
			rec.Class(fmt.Sprintf("concurrent:new-field-race-with-%d-distinct-types", len(distinct)))
		}

		// per writer: exact error, dropped count; model of accepted points
		rec.Eval()
		rec.Class(fmt.Sprintf("concurrent:writers=%d", nW))
		if seriesExist {
			rec.Class("concurrent:series-exist-before-race")
		} else {
			rec.Class("concurrent:series-created-in-race")
		}
		// read back every (series, field) the writers touched in up to 10 of the measurements
		// (cursor reads dominate the cost of a case; error, dropped count and schema cover all)
		readM := map[string]bool{}
		for i, r0 := 0, rapid.IntRange(0, nM-1).Draw(t, "readFrom"); i < nM && i < 10; i++ {
			readM[ms[(r0+i)%nM]] = true
		}
		keys := map[string]bool{}
		mixed := false
		for w := range ws {
			nRej, nRaceLost, nRaceWon, nAcc := 0, 0, 0, 0
			for _, p := range ws[w].Batch {
				rec.Class("cpoint:" + p.Cat)
				rej := p.TimeTg || (fx.vk && p.BadTag)
				for _, f := range p.Fields {
					if readM[p.M] {
						keys[dkey(p.series(), f.Name)] = true
					}
					if sch[p.M][f.Name] != f.V.K {
						rej = true
					}
				}
				switch {
				case rej && p.Cat == "race-new-field":
					nRaceLost++
				case p.Cat == "race-new-field":
					nRaceWon++
				}
				if rej {
					nRej++
					continue
				}
				nAcc++
				put(p)
			}
			if key, detail := writeErrorVerdict(errs[w], nRej, len(ws[w].Batch)); key != "" {
				fail(key, fmt.Sprintf("concurrent writer %d of %d (%d of its points lost the race on new field %s, %d won): %s", w, nW, nRaceLost, rf, nRaceWon, detail), ws)
			}
			switch {
			case nRaceLost > 0 && nAcc > 0:
				mixed = true
				rec.Class("concurrent:writer-lost-races-and-has-accepted-points")
			case nRaceLost > 0:
				rec.Class("concurrent:writer-lost-races-all-rejected")
			default:
				rec.Class("concurrent:writer-won-all-races")
			}
			if nRaceLost > 0 && nRaceWon > 0 {
				rec.Class("concurrent:writer-won-some-lost-some-races")
			}
		}
		ks := make([]string, 0, len(keys))
		for k := range keys {
			ks = append(ks, k)
		}
		sort.Strings(ks)
		for _, k := range ks {
			i := strings.IndexByte(k, 0)
			series, field := k[:i], k[i+1:]
			got, err := fx.f.Read(series, field, models.MinNanoTime, models.MaxNanoTime, true)
			if err != nil {
				fail("read-error", fmt.Sprintf("reading %q %s: %v", series, field, err), ws)
			}
			want := data[k]
			ts := make([]int64, 0, len(want))
			for t := range want {
				ts = append(ts, t)
			}
			sort.Slice(ts, func(a, b int) bool { return ts[a] < ts[b] })
			ok := len(got) == len(ts)
			for j := 0; ok && j < len(ts); j++ {
				ok = got[j].T == ts[j] && got[j].V.Equal(want[ts[j]])
			}
			if !ok {
				var wv, g []string
				for _, t := range ts {
					wv = append(wv, fmt.Sprintf("%d:%s", t, want[t]))
				}
				for _, p := range got {
					g = append(g, fmt.Sprintf("%d:%s", p.T, p.V))
				}
				key := "accepted-point-not-stored"
				if len(got) > len(ts) {
					key = "rejected-point-stored"
				} else if len(got) == len(ts) {
					key = "stored-value-differs"
				}
				fail(key, fmt.Sprintf("after concurrent writers: %q field %s: read %v, model of accepted points %v", series, field, g, wv), ws)
			}
		}
		if mixed {
			var sb strings.Builder
			fmt.Fprintf(&sb, "concurrent vk=%v field=%s", fx.vk, rf)
			for w := range ws {
				fmt.Fprintf(&sb, " | w%d: %s", w, strings.ReplaceAll(renderBatch(ws[w].Batch), fmt.Sprintf("q%d_", caseNo), "Q"))
			}
			rec.NonTrivial(sb.String())
		}
		fx.dirty = false
	})
}
