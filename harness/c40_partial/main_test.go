package c40_partial

import (
	"testing"

	"verifharness/internal/ev"
)

func TestMain(m *testing.M) { ev.Main(m) }
