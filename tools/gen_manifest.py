#!/usr/bin/env python3
"""Regenerates /verif/MANIFEST.json from checks.json (claimed checks) and properties.jsonl."""
import json, os, subprocess
ROOT = os.path.dirname(os.path.dirname(os.path.abspath(__file__)))
cfg = json.load(open(os.path.join(ROOT, "checks.json")))
props = [json.loads(l) for l in open(os.path.join(ROOT, "properties.jsonl")) if l.strip()]
na = cfg.get("not_applicable", {})
checks, not_app = [], []
for p in props:
    pid = p["id"]
    c = cfg["checks"].get(pid)
    if c:
        frag = os.path.join(ROOT, "harness", c["pkg"], "check.json")
        if os.path.exists(frag):
            c = dict(c); c.update({k: v for k, v in json.load(open(frag)).items() if k != "claimed"})
    if c and c.get("claimed", True):
        d = dict(cfg["defaults"]); d.update(c)
        checks.append({
            "property_id": pid,
            "quick_cmd": f"./check {pid} --tier quick",
            "thorough_cmd": f"./check {pid} --tier thorough",
            "evidence_file": f"/verif/evidence/{pid}.json",
            "replay_cmd_template": f"./check {pid} --replay {{path}}",
            "engine": "rapid-harness",
            "level_claimed": {"category": d.get("level", "exploration"), "text": d["level_text"], "design_ref": f"DESIGN.md §6 {pid}"},
            "level_note": d["level_note"],
            "technique": d["technique"],
        })
    else:
        not_app.append({"property_id": pid, "reason": na.get(pid, "no check registered yet: harness for this property is still being built in this work session (see DESIGN.md §6 for the planned generated-input check); nothing is claimed for it")})
hooks_commits = cfg.get("hook_commits", [])
m = {
    "version": 1,
    "setup_cmd": "./setup.sh",
    "hooks": {
        "guard": "verif",
        "enable": "harness test binaries are built with `go test -tags verif` against /repo (replace directive in /verif/harness/go.mod)",
        "baseline_off_cmd": "cd /repo && go test -mod=mod -json -vet=off -count=1 -timeout 25m ./...",
        "source_commits": hooks_commits,
        "add_only": True,
    },
    "engines": [
        {"name": "rapid-harness", "path": "/verif/harness", "serves_properties": [c["property_id"] for c in checks],
         "kind_free_text": "Go module of property-based tests (pgregory.net/rapid v1.3.0 generators, state machines, shrinking; Go native fuzz targets in the thorough tier; porcupine as linearizability oracle) built against /repo with a link-time stub of libflux; driver /verif/check merges per-process evidence"},
    ],
    "checks": checks,
    "notes": cfg.get("notes", ""),
    "not_applicable": not_app,
}
json.dump(m, open(os.path.join(ROOT, "MANIFEST.json"), "w"), indent=1)
print(f"MANIFEST.json: {len(checks)} checks, {len(not_app)} not claimed")
