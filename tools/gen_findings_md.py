#!/usr/bin/env python3
"""Prints a markdown table of known_findings.json (used for DESIGN.md §9.2)."""
import json
d = json.load(open('/verif/known_findings.json'))
print("| property | key | status | commit | what fails |")
print("|---|---|---|---|---|")
for e in sorted(d['findings'], key=lambda e: (e['property'], e['status'], e['key'])):
    what = e['what'].replace('|', '\\|').replace('\n', ' ')
    if len(what) > 420:
        what = what[:417] + '…'
    print(f"| {e['property']} | `{e['key']}` | {e['status']} | {e.get('commit','')} | {what} |")
