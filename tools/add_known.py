#!/usr/bin/env python3
"""add_known.py <property> <key> <what> [--fixed <commit>] : add/update an entry of /verif/known_findings.json (file-locked)."""
import fcntl, json, os, sys
ROOT = os.path.dirname(os.path.dirname(os.path.abspath(__file__)))
p = os.path.join(ROOT, "known_findings.json")
args = sys.argv[1:]
if len(args) < 3:
    print(__doc__); sys.exit(2)
prop, key, what = args[0], args[1], args[2]
status, commit = "open", None
if "--fixed" in args:
    status, commit = "fixed", args[args.index("--fixed") + 1]
with open(p, "r+") as f:
    fcntl.flock(f, fcntl.LOCK_EX)
    d = json.load(f)
    d["findings"] = [e for e in d["findings"] if not (e["property"] == prop and e["key"] == key)]
    e = {"property": prop, "key": key, "status": status, "what": what}
    if commit:
        e["commit"] = commit
        e["record"] = f"fixed: property={prop} {commit} {what}"
    d["findings"].append(e)
    d["findings"].sort(key=lambda e: (e["property"], e["key"]))
    f.seek(0); f.truncate(); json.dump(d, f, indent=1); f.write("\n")
print(f"{status}: {prop} {key}")
