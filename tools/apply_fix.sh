#!/bin/bash
# apply_fix.sh <diff> <property> <key> <commit-title> <commit-body>: apply one repair to /repo as a fix: commit and mark the finding fixed.
set -euo pipefail
diff=$1; prop=$2; key=$3; title=$4; body=$5
git -C /repo apply "$diff"
git -C /repo add -A
git -C /repo commit -q -m "fix: $title" -m "$body"
h=$(git -C /repo log --format=%h -1)
python3 - "$prop" "$key" "$h" <<'PY'
import json,sys
prop,key,h=sys.argv[1:4]
d=json.load(open('/verif/known_findings.json'))
n=0
for e in d['findings']:
    if e['key']==key and (e['property']==prop or prop=='*'):
        e['status']='fixed'; e['commit']=h; e['record']=f"fixed: property={e['property']} {h} {e['what']}"; n+=1
json.dump(d,open('/verif/known_findings.json','w'),indent=1)
print(f"{h} marks {n} entr{'y' if n==1 else 'ies'} fixed ({prop} {key})")
PY
