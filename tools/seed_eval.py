#!/usr/bin/env python3
"""seed_eval.py <ID> [<check-id> ...]: confirm a seeded change left by a seeding agent in /tmp/seed-<ID> and run the
registered check(s) against it.

 1. fresh worktree of /repo HEAD at /tmp/seedchk-<ID>; copy the agent's untracked demonstration files; apply SEED_patch.diff
 2. run the demonstration: must FAIL with the patch and PASS after `git apply -R`
 3. store patch.diff, the demonstration and meta.json under /verif/seeded/<ID>/
 4. re-apply the patch and run `VERIF_REPO=/tmp/seedchk-<ID> ./check <check-id>` (default: the property itself)
 5. write the outcome into /verif/seeded/<ID>/meta.json and remove the worktree
"""
import json, os, re, shutil, subprocess, sys, time
pid = sys.argv[1]; checks = sys.argv[2:] or [pid]
wave = os.environ.get("SEED_WAVE", "1")  # later waves: worktree /tmp/seed<w>-<ID>, stored as seeded/<ID>.<w>/
sfx = "" if wave == "1" else wave
src = f"/tmp/seed{sfx}-{pid}"; wt = f"/tmp/seedchk{sfx}-{pid}"
meta = json.load(open(os.path.join(src, "SEED_meta.json")))
if isinstance(meta, list): meta = meta[0]
env = dict(os.environ, PKG_CONFIG_PATH="/verif/stub/pkgconfig", GOTOOLCHAIN="local", GOFLAGS="-mod=mod", GOPROXY="off", GOSUMDB="off")
def sh(cmd, cwd, e=env, timeout=1800):
    r = subprocess.run(cmd, shell=True, cwd=cwd, env=e, stdout=subprocess.PIPE, stderr=subprocess.STDOUT, text=True, timeout=timeout)
    return r.returncode, r.stdout
subprocess.run(["git", "-C", "/repo", "worktree", "remove", "--force", wt], capture_output=True)
shutil.rmtree(wt, ignore_errors=True); subprocess.run(["git", "-C", "/repo", "worktree", "prune"])
subprocess.check_call(["git", "-C", "/repo", "worktree", "add", "--detach", "-q", wt, "HEAD"])
others = subprocess.check_output(["git", "-C", src, "ls-files", "--others", "--exclude-standard"], text=True).split("\n")
demos = [f for f in others if f and not os.path.basename(f).startswith("SEED_") and not f.startswith("FOREIGN")]
for f in demos:
    os.makedirs(os.path.dirname(os.path.join(wt, f)) or wt, exist_ok=True)
    shutil.copy(os.path.join(src, f), os.path.join(wt, f))
patch = os.path.join(src, "SEED_patch.diff")
rc, out = sh(f"git apply --check {patch}", wt)
result = {"property": pid, "applies_to_head": rc == 0}
if rc != 0:
    rc3, out3 = sh(f"git apply --3way {patch}", wt)
    result["applies_with_3way"] = rc3 == 0
    if rc3 != 0:
        result["note"] = "patch does not apply to current /repo HEAD: " + out[-300:]
        print(json.dumps(result, indent=1)); sys.exit(1)
    sh("git reset -q", wt)
    sh(f"git diff > {wt}/SEED_rebased.diff", wt); patch = f"{wt}/SEED_rebased.diff"
    sh(f"git apply -R {patch}", wt)
demo_text = str(meta.get("demo", ""))
m = re.search(r"(go1\.26\.8 test[^\n;`]*|(?<![\w.])go test[^\n;`]*)", demo_text)
cmd = m.group(1).strip() if m else None
if cmd:
    cmd = re.split(r"\s+\(|\s{2,}|\s+->|\s+—|\s+#", cmd)[0].strip().rstrip(".,:")
result["demo_cmd"] = cmd
if cmd:
    plain = not cmd.startswith("go1.26.8")
    e = dict(os.environ) if plain else env
    if plain:
        for k in ("GOFLAGS", "GOTOOLCHAIN", "PKG_CONFIG_PATH"): e.pop(k, None)
    sh(f"git apply {patch}", wt)
    rc1, o1 = sh(cmd, wt, e)
    sh(f"git apply -R {patch}", wt)
    rc2, o2 = sh(cmd, wt, e)
    result["demo_fails_with_patch"] = rc1 != 0
    result["demo_passes_without_patch"] = rc2 == 0
    result["demo_tail_with_patch"] = o1[-400:]
    if rc2 != 0: result["demo_tail_without_patch"] = o2[-400:]
dst = f"/verif/seeded/{pid}" + ("" if wave == "1" else "." + wave); os.makedirs(dst, exist_ok=True)
shutil.copy(patch, os.path.join(dst, "patch.diff"))
for f in demos:
    shutil.copy(os.path.join(src, f), os.path.join(dst, os.path.basename(f)))
sh(f"git apply {patch}", wt)
outcomes = {}
for c in checks:
    t0 = time.time()
    e2 = dict(os.environ, VERIF_REPO=wt)
    r = subprocess.run(["./check", c], cwd="/verif", env=e2, stdout=subprocess.PIPE, stderr=subprocess.STDOUT, text=True)
    vio = [l for l in r.stdout.split("\n") if l.startswith("violation:") or l.startswith("VIOLATION")]
    outcomes[c] = {"exit": r.returncode, "caught": r.returncode == 1, "wall_s": round(time.time() - t0), "lines": [v[:300] for v in vio[:3]]}
result["checks"] = outcomes
meta_out = {"property": pid, "summary": meta.get("summary"), "manifests_when": meta.get("manifests_when"), "demo": meta.get("demo"),
            "demo_files": [os.path.basename(f) for f in demos], "baseline_checked": meta.get("baseline_checked"),
            "confirmed_by_lead": {k: result.get(k) for k in ("applies_to_head", "applies_with_3way", "demo_cmd", "demo_fails_with_patch", "demo_passes_without_patch")},
            "ran": {c: f"VERIF_REPO=<worktree of /repo HEAD + patch.diff> ./check {c} (quick tier, seed 1)" for c in checks},
            "outcome": outcomes, "repo_head": subprocess.check_output(["git", "-C", "/repo", "log", "--format=%h", "-1"], text=True).strip()}
json.dump(meta_out, open(os.path.join(dst, "meta.json"), "w"), indent=1)
subprocess.run(["git", "-C", "/repo", "worktree", "remove", "--force", wt], capture_output=True)
shutil.rmtree(os.path.join("/verif/harness/.alt", re.sub(r"[^A-Za-z0-9]", "_", wt)), ignore_errors=True)
print(json.dumps({k: v for k, v in result.items() if k not in ("demo_tail_with_patch",)}, indent=1)[:1500])
