#!/opt/veriftools/pyvenv/bin/python
"""validate.py: MANIFEST.json and every claimed check's committed evidence file against the schemas."""
import json, jsonschema, sys, os
ROOT = os.path.dirname(os.path.dirname(os.path.abspath(__file__)))
m = json.load(open(os.path.join(ROOT, "MANIFEST.json")))
jsonschema.validate(m, json.load(open("/root/.vp/MANIFEST.schema.json")))
es = json.load(open("/root/.vp/EVIDENCE.schema.json"))
bad = 0
for c in m["checks"]:
    p = c["evidence_file"]
    try:
        e = json.load(open(p))
        jsonschema.validate(e, es)
        if e.get("violations"):
            print("VIOLATIONS in committed evidence", p); bad += 1
        if e["property_id"] != c["property_id"]:
            print("wrong id", p); bad += 1
    except Exception as ex:
        print("INVALID", p, str(ex)[:200]); bad += 1
props = [json.loads(l)["id"] for l in open(os.path.join(ROOT, "properties.jsonl")) if l.strip()]
covered = {c["property_id"] for c in m["checks"]} | {n["property_id"] for n in m.get("not_applicable", [])}
missing = [p for p in props if p not in covered]
if missing:
    print("properties neither claimed nor listed not_applicable:", missing); bad += 1
print(f"{len(m['checks'])} checks validated, {bad} problems")
sys.exit(1 if bad else 0)
