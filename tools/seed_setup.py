#!/usr/bin/env python3
"""seed_setup.py C01 C02 ... : create a git worktree /tmp/seed-<ID> of /repo HEAD per id and print the assignment text for a seeding agent."""
import json, subprocess, sys, os
props = json.load(open('/tmp/props_text.json')) if os.path.exists('/tmp/props_text.json') else None
if props is None:
    props = {}
    for l in open('/verif/properties.jsonl'):
        if l.strip():
            v = json.loads(l); props[v['id']] = {'title': v['title'], 'statement': v['statement'], 'quantifier': v['quantifier']['text'], 'files': v['anchors']['files']}
out = []
wave = os.environ.get("SEED_WAVE", "1"); sfx = "" if wave == "1" else wave
for pid in sys.argv[1:]:
    wt = f"/tmp/seed{sfx}-{pid}"
    if not os.path.exists(wt):
        subprocess.check_call(['git', '-C', '/repo', 'worktree', 'add', '--detach', '-q', wt, 'HEAD'])
    p = props[pid]
    prev = ""
    if wave != "1":
        import glob
        for mf in sorted(glob.glob(f"/verif/seeded/{pid}*/meta.json")):
            m = json.load(open(mf))
            prev += f"Already used for this property (yours must be in a DIFFERENT function/mechanism, not a variation of it): {m.get('summary')}\n"
    out.append(f"--- PROPERTY {pid} (worktree: {wt}) ---\nTitle: {p['title']}\nStatement: {p['statement']}\nQuantified over: {p['quantifier']}\nCode it is anchored in: {', '.join(p['files'])}\n{prev}")
print(open('/tmp/SEED_PROMPT.txt').read().replace('/tmp/seed-*', f'/tmp/seed{sfx}-*') + "\n" + "\n".join(out))
