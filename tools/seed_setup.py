#!/usr/bin/env python3
"""seed_setup.py C01 C02 ... : create a git worktree /tmp/seed-<ID> of /repo HEAD per id and print the assignment text for a seeding agent."""
import json, subprocess, sys, os
props = json.load(open('/tmp/props_text.json')) if os.path.exists('/tmp/props_text.json') else None
if props is None:
    props = {}
    for l in open('/verif/properties.jsonl'):
        if l.strip():
            v = json.loads(l); props[v['id']] = {'title': v['title'], 'statement': v['statement'], 'quantifier': v['quantifier']['text'], 'files': v['anchors']['files']}
out = []
for pid in sys.argv[1:]:
    wt = f"/tmp/seed-{pid}"
    if not os.path.exists(wt):
        subprocess.check_call(['git', '-C', '/repo', 'worktree', 'add', '--detach', '-q', wt, 'HEAD'])
    p = props[pid]
    out.append(f"--- PROPERTY {pid} (worktree: {wt}) ---\nTitle: {p['title']}\nStatement: {p['statement']}\nQuantified over: {p['quantifier']}\nCode it is anchored in: {', '.join(p['files'])}\n")
print(open('/tmp/SEED_PROMPT.txt').read() + "\n" + "\n".join(out))
