#!/usr/bin/env python3
"""show_ops.py <violations.json> : print the op list of the first violation compactly."""
import json,sys
d=json.load(open(sys.argv[1])); v=d['violations'][0]
print(v['key']); print(v['detail'][:600]); print()
ops=v['case']['ops']
def r(o):
    s=o['kind']+(':'+o.get('arg','') if o.get('arg') else '')
    if o['kind'] in('delete','deleteDuringSnapshot'): s+=f" {o.get('series')} [{o.get('min',0)},{o.get('max',0)}]"
    if o.get('points'): s+=' '+' '.join(f"{p['series']}@{p['t']}:{','.join(sorted(p['fields'].keys()))}" for p in o['points'])
    if o.get('inner'): s+=' {'+r(o['inner'])+'}'+f" hit={o.get('hit')}"
    if o['kind']=='tornwal': s+=f" off={o.get('offset')}"
    if o['kind']=='compact': s+=f" n={o.get('n',0)}"
    return s
for i,o in enumerate(ops): print(i,r(o)[:400])
