#!/usr/bin/env python3
"""Regenerates the findings table of DESIGN.md §9.2 between the FINDINGS markers."""
import subprocess
p='/verif/DESIGN.md'; s=open(p).read()
a=s.index('<!-- FINDINGS-BEGIN'); a=s.index('\n',a)+1
b=s.index('<!-- FINDINGS-END -->')
tab=subprocess.check_output(['python3','/verif/tools/gen_findings_md.py'],text=True)
open(p,'w').write(s[:a]+tab+s[b:])
print('refreshed')
