#!/bin/bash
# run_all.sh [tier] [ids...]: run checks sequentially, print one line per check (id rc wall), keep logs in evidence/.logs
cd "$(dirname "$0")/.."
tier=${1:-quick}; shift || true
ids="$@"
[ -z "$ids" ] && ids=$(python3 -c "import json;print(' '.join(k for k,v in sorted(json.load(open('checks.json'))['checks'].items()) if v.get('claimed')))")
for id in $ids; do
  s=$(date +%s)
  out=$(./check $id --tier $tier 2>&1); rc=$?
  e=$(date +%s)
  echo "$id rc=$rc wall=$((e-s))s $(echo "$out" | grep -c '^KNOWN-FINDING') known $(echo "$out" | grep '^\[' | tail -1 | cut -c1-160)"
  [ $rc -ne 0 ] && echo "$out" | grep -v '^\s' | tail -5 | cut -c1-300
done
