#!/bin/bash
# Builds /verif/stub/libflux.a and pkgconfig/flux.pc (offline; gcc + ar only).
set -euo pipefail
cd "$(dirname "$0")"
MODCACHE=$(cd /repo && GOFLAGS=-mod=mod GOPROXY=off go env GOMODCACHE)
FLUXVER=$(cd /repo && awk '$1=="github.com/influxdata/flux"{print $2}' go.mod | head -1)
INC="$MODCACHE/github.com/influxdata/flux@$FLUXVER/libflux/include"
[ -f "$INC/influxdata/flux.h" ] || { echo "flux.h not found under $INC" >&2; exit 2; }
gcc -O1 -fPIC -I"$INC" -c fluxstub.c -o fluxstub.o
rm -f libflux.a; ar rcs libflux.a fluxstub.o; rm -f fluxstub.o
mkdir -p pkgconfig
cat > pkgconfig/flux.pc <<PC
Name: flux
Description: offline link-time stub of libflux (verification only)
Version: 0.0.0-stub
Cflags: -I$INC
Libs: -L$(pwd) -lflux
PC
echo "stub built: $(pwd)/libflux.a"
