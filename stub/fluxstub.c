/* Link-time stub of libflux for offline verification builds (see DESIGN.md §2.1).
 * The real libflux is a Rust library that cannot be built in this sandbox.  Nothing the
 * harnesses exercise parses or analyses Flux source; any call that would need the real
 * library aborts the process loudly (the driver reports that as exit 2, never as a pass). */
#include <stdio.h>
#include <stdlib.h>
#include <stddef.h>
#include <influxdata/flux.h>

#define DIE(name) do { fprintf(stderr, "VERIF-STUB: libflux function %s called; not available offline\n", name); abort(); } while (0)

/* empty flatbuffer table: root offset 8, vtable {size 4, object size 4}, soffset 4 */
static char empty_env[12] = {8,0,0,0, 4,0,4,0, 4,0,0,0};

void flux_get_env_stdlib(struct flux_buffer_t *b) { b->data = empty_env; b->len = sizeof(empty_env); }
void flux_free_bytes(const char *p) { (void)p; }

void flux_semantic_packages(struct flux_buffer_t *b) { (void)b; DIE("flux_semantic_packages"); }
void flux_free_error(struct flux_error_t *e) { (void)e; DIE("flux_free_error"); }
const char *flux_error_str(struct flux_error_t *e) { (void)e; DIE("flux_error_str"); return 0; }
void flux_error_print(struct flux_error_t *e) { (void)e; DIE("flux_error_print"); }
struct flux_ast_pkg_t *flux_parse(const char *f, const char *s) { (void)f; (void)s; DIE("flux_parse"); return 0; }
struct flux_error_t *flux_ast_format(struct flux_ast_pkg_t *p, struct flux_buffer_t *b) { (void)p; (void)b; DIE("flux_ast_format"); return 0; }
struct flux_error_t *flux_ast_get_error(struct flux_ast_pkg_t *p, const char *o) { (void)p; (void)o; DIE("flux_ast_get_error"); return 0; }
void flux_free_ast_pkg(struct flux_ast_pkg_t *p) { (void)p; DIE("flux_free_ast_pkg"); }
struct flux_error_t *flux_merge_ast_pkgs(struct flux_ast_pkg_t *a, struct flux_ast_pkg_t *b) { (void)a; (void)b; DIE("flux_merge_ast_pkgs"); return 0; }
struct flux_error_t *flux_parse_json(const char *s, struct flux_ast_pkg_t **p) { (void)s; (void)p; DIE("flux_parse_json"); return 0; }
struct flux_error_t *flux_ast_marshal_json(struct flux_ast_pkg_t *p, struct flux_buffer_t *b) { (void)p; (void)b; DIE("flux_ast_marshal_json"); return 0; }
struct flux_stateful_analyzer_t *flux_new_stateful_analyzer(const char *o) { (void)o; DIE("flux_new_stateful_analyzer"); return 0; }
void flux_free_stateful_analyzer(struct flux_stateful_analyzer_t *a) { (void)a; DIE("flux_free_stateful_analyzer"); }
struct flux_error_t *flux_analyze_with(struct flux_stateful_analyzer_t *a, const char *s, struct flux_ast_pkg_t *p, struct flux_semantic_pkg_t **o) { (void)a; (void)s; (void)p; (void)o; DIE("flux_analyze_with"); return 0; }
struct flux_error_t *flux_analyze(struct flux_ast_pkg_t *p, const char *o, struct flux_semantic_pkg_t **s) { (void)p; (void)o; (void)s; DIE("flux_analyze"); return 0; }
struct flux_error_t *flux_find_var_type(struct flux_semantic_pkg_t *p, const char *v, struct flux_buffer_t *b) { (void)p; (void)v; (void)b; DIE("flux_find_var_type"); return 0; }
void flux_free_semantic_pkg(struct flux_semantic_pkg_t *p) { (void)p; DIE("flux_free_semantic_pkg"); }
struct flux_error_t *flux_semantic_marshal_fb(struct flux_semantic_pkg_t *p, struct flux_buffer_t *b) { (void)p; (void)b; DIE("flux_semantic_marshal_fb"); return 0; }
